"""Bounded-exhaustive and random token soups (DESIGN 3.2)."""
import itertools


def count(alphabet_size, maxlen, minlen=0):
    return sum(alphabet_size ** l for l in range(minlen, maxlen + 1))


def enum_tokens(alphabet, maxlen, shard=0, nshards=1, minlen=0):
    """All token tuples of length minlen..maxlen over *alphabet*; shard k of n
    receives every n-th tuple of the enumeration (deterministic partition)."""
    i = 0
    for l in range(minlen, maxlen + 1):
        for tup in itertools.product(alphabet, repeat=l):
            if i % nshards == shard:
                yield tup
            i += 1


def enum_strings(alphabet, maxlen, shard=0, nshards=1, minlen=0):
    for tup in enum_tokens(alphabet, maxlen, shard, nshards, minlen):
        yield ''.join(tup)


def soup_strategy(alphabet, min_size=0, max_size=40):
    from hypothesis import strategies as st
    return st.lists(st.sampled_from(list(alphabet)), min_size=min_size, max_size=max_size)
