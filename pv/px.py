"""Thin helpers around the public pylatexenc API used by many properties."""
from . import monitor


def walker(s, ctx=None, tolerant=False, **kw):
    from pylatexenc.latexwalker import LatexWalker
    if ctx is not None:
        kw['latex_context'] = ctx
    return LatexWalker(s, tolerant_parsing=tolerant, **kw)


def parse(s, ctx=None, tolerant=False, monitored=True, parsing_state_kw=None, **kw):
    """Returns (walker, nodelist).  Raises whatever the parse raises
    (monitor.NonTermination is a BaseException).  parsing_state_kw: fields of the parsing state
    the parse starts in (made by the walker's make_parsing_state())."""
    from pylatexenc.latexnodes.parsers import LatexGeneralNodesParser
    w = walker(s, ctx, tolerant, **kw)
    pkw = {}
    if parsing_state_kw:
        pkw['parsing_state'] = w.make_parsing_state(**parsing_state_kw)
    if monitored:
        with monitor.budget(len(s)):
            nl, _ = w.parse_content(LatexGeneralNodesParser(), **pkw)
    else:
        nl, _ = w.parse_content(LatexGeneralNodesParser(), **pkw)
    return w, nl


def parse_error_class():
    from pylatexenc.latexwalker import LatexWalkerParseError
    return LatexWalkerParseError
