"""Thin helpers around the public pylatexenc API used by many properties."""
from . import monitor


def walker(s, ctx=None, tolerant=False, **kw):
    from pylatexenc.latexwalker import LatexWalker
    if ctx is not None:
        kw['latex_context'] = ctx
    return LatexWalker(s, tolerant_parsing=tolerant, **kw)


def parse(s, ctx=None, tolerant=False, monitored=True, **kw):
    """Returns (walker, nodelist).  Raises whatever the parse raises
    (monitor.NonTermination is a BaseException)."""
    from pylatexenc.latexnodes.parsers import LatexGeneralNodesParser
    w = walker(s, ctx, tolerant, **kw)
    if monitored:
        with monitor.budget(len(s)):
            nl, _ = w.parse_content(LatexGeneralNodesParser())
    else:
        nl, _ = w.parse_content(LatexGeneralNodesParser())
    return w, nl


def parse_error_class():
    from pylatexenc.latexwalker import LatexWalkerParseError
    return LatexWalkerParseError
