"""pv -- property verification harness for phfaist/pylatexenc.

Importing this package makes ``import pylatexenc`` resolve to the working tree
named by $PV_REPO (default /repo), with bytecode caching off, so that every
check sees the current sources.
"""
import os
import sys

REPO = os.path.realpath(os.environ.get('PV_REPO', '/repo'))
VERIF = os.path.dirname(os.path.dirname(os.path.abspath(__file__)))

sys.dont_write_bytecode = True
if sys.path[0:1] != [REPO]:
    # remove other occurrences, put the tree under test first
    sys.path[:] = [REPO] + [p for p in sys.path if os.path.realpath(p or '.') != REPO]

# The parsers and latex2text are recursive; nesting depth is a resource limit of
# the interpreter, not something the properties speak about (DESIGN 4.3).
sys.setrecursionlimit(20000)

import warnings
# the pylatexenc-2 compatible API warns about its own use; warnings are not what is checked
warnings.filterwarnings('ignore', category=DeprecationWarning)
warnings.filterwarnings('ignore', category=PendingDeprecationWarning)

import logging
logging.getLogger('pylatexenc').setLevel(logging.CRITICAL)
logging.disable(logging.WARNING)
