"""Document grammar with a known AST (DESIGN 3.3).

AST items are JSON-friendly lists:

  ['text', s]                 letters / digits / harmless punctuation / single blanks
  ['space', ws]               whitespace at list level (at most one newline)
  ['par', ws]                 paragraph break (>= 2 newlines)
  ['group', items]
  ['comment', text, eol]      eol = '\n' + blanks ('' only as very last thing of the document)
  ['specials', chars]
  ['macro', name, post_space, slots]     slots: one entry per declared slot
  ['env', name, slots, items]
  ['math', open, close, items]
  ['verb', delim, text]  /  ['verbatimenv', text]

A slot entry is None (absent) or [form, pre, content]:
  form 'braced'  content = items           {...}
       'token'   content = item            a single char / control symbol / arg-less control word
       'star'    content = None            *
       'marker'  content = char            t<c>
       'bracket' content = items           [...]   (also d<c1c2>/r<c1c2>: delimiters in slot type)
       'verb'    content = [open, close, text]
  pre = list of ['space', ws] / ['comment', text, eol] written before the argument.

The module constructs only documents whose reading under LaTeX's rules is
unambiguous (see DESIGN 3.3 construction rules); ``normalise`` enforces the
rules by construction (it rewrites, it never rejects).
"""
from hypothesis import strategies as st

# ---------------------------------------------------------------------------
# signatures.  slot type: (kind, extra) where kind in
#   'm' mandatory expression, 'o' optional [..], 's' star, 't' marker char,
#   'r' required delimited, 'd' optional delimited, 'v' verbatim, 'onosp' optional [ w/o space
# mode: None | 'text' | 'math' (per-argument parsing state delta)


def S(kind, extra=None, mode=None):
    return {'k': kind, 'x': extra, 'mode': mode}


_M, _O, _ST = S('m'), S('o'), S('s')

SIGS = {
    'default': {
        'macros': {
            'textbf': [S('m', mode='text')], 'textit': [S('m', mode='text')],
            'emph': [_M], 'text': [S('m', mode='text')], 'mathrm': [_M],
            'mbox': [S('m', mode='text')],
            'ensuremath': [S('m', mode='math')],
            'frac': [_M, _M], 'sqrt': [_O, _M], 'section': [_ST, _O, _M],
            '\\': [_ST, S('onosp')], 'item': [_O], 'cite': [_ST, _O, _O, _M],
            'newcommand': [_ST, _M, _O, _O, _M], 'hat': [_M], "'": [_M], 'c': [_M],
            'xrightarrow': [_O, _M], 'hspace': [_ST, _M],
            'alpha': [], 'ldots': [], 'foo': [], 'LaTeX': [], '&': [], '%': [], '$': [],
            '{': [], '}': [], ',': [], 'quad': [],
        },
        'envs': {
            'itemize': ([_O], None), 'enumerate': ([_O], None), 'tabular': ([_M], None),
            'array': ([_O, _M], None), 'equation': ([], 'math'), 'align*': ([], 'math'),
            'x': ([], None), 'center': ([], None), 'figure': ([_O], None),
            'alignat': ([_M], 'math'), 'gather': ([], 'math'), 'multline*': ([], 'math'),
        },
        'specials': ['~', '&', '--', '---', '``', "''", '!`', '?`'],
        'verb': True,
    },
    'every': {
        'macros': {
            'mstar': [S('s')], 'mopt': [S('o')], 'mmand': [S('m')], 'mm': [S('m')],
            'mo': [S('o')], 'ms': [S('s')], 'mt': [S('t', '+')], 'mr': [S('r', '<>')],
            'md': [S('d', '<>')], 'mv': [S('v')], 'mvb': [S('v', '{}')],
            'mcombo': [S('s'), S('o'), S('m'), S('m')],
            'mcombob': [S('s'), S('t', '+'), S('o'), S('d', '<>'), S('m')],
            'mmath': [S('m', mode='math')], 'mtext': [S('m', mode='text')],
            'mnone': [], 'unk': [], ',': [],
            # other parameterisations and slot orders
            'mom': [S('m'), S('o')], 'mrp': [S('r', '()'), S('m')], 'mdp': [S('d', '()')],
            'mtb': [S('t', '!'), S('m')], 'mvm': [S('m'), S('v')],
            # arguments of one macro in different modes (none may leak into the next)
            'mtp': [S('m', mode='text'), S('m')], 'mpm': [S('m'), S('m', mode='math')],
            'mmpt': [S('m', mode='math'), S('m'), S('m', mode='text')],
        },
        'envs': {
            'eenv': ([S('o'), S('m')], None), 'emath': ([], 'math'), 'eplain': ([], None),
            'unkenv': ([], None), 'e2-x:y': ([], None), 'esd': ([S('s'), S('d', '()'), S('m')], None),
            'ematharg': ([S('o'), S('m')], 'math'),     # arguments in the outer mode, body in math
        },
        'specials': ['~', '+', '++'],
        'verb': False,
    },
}
SIGS['every-strings'] = SIGS['every']
SIGS['every-nounknown'] = {
    'macros': {k: v for k, v in SIGS['every']['macros'].items() if k not in ('unk', ',')},
    'envs': {k: v for k, v in SIGS['every']['envs'].items() if k != 'unkenv'},
    'specials': SIGS['every']['specials'], 'verb': False,
}

SIGS['default-math'] = {
    'macros': {k: SIGS['default']['macros'][k] for k in
               ('text', 'textbf', 'mbox', 'ensuremath', 'mathrm', 'frac', 'sqrt', 'alpha', 'hat',
                'item', '\\')},
    'envs': {k: SIGS['default']['envs'][k] for k in ('equation', 'align*', 'x', 'itemize', 'array',
                                                     'alignat', 'gather', 'multline*')},
    'specials': ['~', '&'], 'verb': False, 'mathy': True,
}
SIGS['every-math'] = {
    'macros': {k: SIGS['every']['macros'][k] for k in
               ('mmath', 'mtext', 'mmand', 'mopt', 'mcombo', 'mnone', 'mr', 'mtp', 'mpm', 'mmpt')},
    'envs': dict(SIGS['every']['envs']),
    'specials': ['~'], 'verb': False, 'mathy': True,
}
SIGS['c12'] = {
    'macros': dict({k: SIGS['default']['macros'][k] for k in
                    ('textbf', 'emph', 'textit', 'text', 'mathrm', 'frac', 'sqrt', 'section',
                     'item', 'cite', 'hat', 'alpha', 'ldots', 'foo', '&', ',', 'ensuremath',
                     'xrightarrow', '\\')},
                   dmac=[S('o'), S('m')], dmacb=[S('m'), S('m')]),
    'envs': dict({k: SIGS['default']['envs'][k] for k in
                  ('itemize', 'enumerate', 'equation', 'align*', 'x', 'center', 'tabular')},
                 denv=([S('o')], None)),
    'specials': ['~', '&', '--', '``'], 'verb': False,
}
SIGS['default-noverb'] = dict(SIGS['default'], verb=False)
# the core sublanguage of C03 (no sectioning, citations, definitions, tables, floats: constructs
# whose rendering may carry state or layout the statement does not speak about)
SIGS['core-noverb'] = {
    'macros': {k: SIGS['default']['macros'][k] for k in
               ('textbf', 'textit', 'emph', 'text', 'mathrm', 'frac', 'hat', "'", 'c', 'alpha',
                'ldots', '&', '%', '$', '{', '}', ',', 'quad')},
    'envs': {k: SIGS['default']['envs'][k] for k in ('equation', 'align*', 'x')},
    'specials': ['~', '--', '---', '``', "''"], 'verb': False,
}
SIGS['every-noverb'] = dict(SIGS['every'], macros={k: v for k, v in SIGS['every']['macros'].items()
                                                   if not any(sl['k'] == 'v' for sl in v)})
# which real context a signature table is parsed with
CTX_OF = {'core-noverb': 'default', 'c12': 'c12', 'default-math': 'default', 'every-math': 'every', 'default': 'default', 'every': 'every', 'default-noverb': 'default',
          'every-noverb': 'every', 'every-strings': 'every-strings',
          'every-nounknown': 'every-nounknown'}

LETTERS = 'abcxyzABZ'
TEXTCHARS = LETTERS + '0123456789' + '.;:()'
WS_INLINE = [' ', '  ', '\n', ' \n', '\n ', ' \n  ', '\t']
POST_SPACE = ['', '', ' ', '  ', '\n', ' \n ']
PAR_WS = ['\n\n', '\n\n\n', '\n \n', ' \n\n ', '\n\t\n  ']


def is_control_word(name):
    return name[:1].isalpha()


# ---------------------------------------------------------------------------
# strategies.  Built with composite/draw and memoised per (signature, depth,
# mode, in_bracket) so that strategy objects are constructed once.

_ST_CACHE = {}

_S_TEXT = st.text(alphabet=TEXTCHARS + ' ', min_size=1, max_size=6)
_S_CMT_TEXT = st.text(alphabet='ab c{}$\\%[]&~', max_size=6)
_S_CMT_EOL = st.sampled_from(['\n', '\n  ', '\n '])
_S_WS_INLINE = st.sampled_from(WS_INLINE)
_S_PRE_WS = st.sampled_from([' ', '\n', '  ', ' \n '])
_S_PAR = st.sampled_from(PAR_WS)
_S_VERBTEXT = st.text(alphabet='ab \\%$&~_^#{}[]|!', max_size=6)
_S_VERBDELIM = st.sampled_from([('{', '}'), ('|', '|'), ('[', ']'), ('!', '!')])
_S_INT = st.integers(min_value=0, max_value=99)


def _draw_comment(draw):
    return ['comment', draw(_S_CMT_TEXT), draw(_S_CMT_EOL)]


def _draw_pre(draw, kind):
    r = draw(_S_INT)
    if r < 55:
        return []
    if kind == 'm':
        out = []
        for _ in range(1 + (r % 2)):
            if draw(_S_INT) < 60:
                out.append(['space', draw(_S_PRE_WS)])
            else:
                out.append(_draw_comment(draw))
        return out
    if kind in ('o', 's', 't', 'd', 'r', 'v'):
        return [['space', draw(_S_PRE_WS)]]
    return []


def _draw_slot(draw, slot, signame, depth, mode):
    sig = SIGS[signame]
    k = slot['k']
    m = slot['mode'] or mode
    if k == 'm':
        pre = _draw_pre(draw, 'm')
        if draw(_S_INT) < 67:
            return ['braced', pre, draw(items_strategy(signame, depth - 1, m, False))]
        r = draw(_S_INT)
        if r < 45:
            tok = ['text', draw(st.sampled_from(list(LETTERS + '012')))]
        elif r < 60 and '~' in sig['specials']:
            tok = ['specials', '~']        # an argument-less specials as the single-token argument
        else:
            arglessw = sorted(n for n, sl in sig['macros'].items() if not sl)
            n = draw(st.sampled_from(arglessw))
            ps = draw(st.sampled_from(['', ' ', '\n'])) if is_control_word(n) else ''
            tok = ['macro', n, ps, []]
        return ['token', pre, tok]
    if k in ('o', 'onosp', 'd'):
        if draw(_S_INT) < 45:
            return None
        pre = [] if k == 'onosp' else _draw_pre(draw, k)
        return ['bracket', pre, draw(items_strategy(signame, depth - 1, m, True))]
    if k == 'r':
        return ['bracket', _draw_pre(draw, k), draw(items_strategy(signame, depth - 1, m, True))]
    if k == 's':
        if draw(_S_INT) < 50:
            return None
        return ['star', _draw_pre(draw, k), None]
    if k == 't':
        if draw(_S_INT) < 50:
            return None
        return ['marker', _draw_pre(draw, k), slot['x']]
    if k == 'v':
        pre = _draw_pre(draw, k)
        delims = (slot['x'][0], slot['x'][1]) if slot['x'] else draw(_S_VERBDELIM)
        return ['verb', pre, [delims[0], delims[1], draw(_S_VERBTEXT)]]
    raise ValueError(k)


def _draw_macro(draw, signame, depth, mode):
    sig = SIGS[signame]
    name = draw(st.sampled_from(sorted(sig['macros'])))
    slots = sig['macros'][name]
    ps = draw(st.sampled_from(POST_SPACE)) if is_control_word(name) else ''
    return ['macro', name, ps, [_draw_slot(draw, sl, signame, depth, mode) for sl in slots]]


def _draw_env(draw, signame, depth, mode):
    sig = SIGS[signame]
    names = sorted(n for n, (sl, bm) in sig['envs'].items()
                   if not (bm == 'math' and mode == 'math'))
    name = draw(st.sampled_from(names))
    slots, bmode = sig['envs'][name]
    sl = [_draw_slot(draw, s, signame, depth, mode) for s in slots]
    body = draw(items_strategy(signame, depth - 1, bmode or mode, False))
    return ['env', name, sl, body]


MATH_DELIMS = [('$', '$'), ('\\(', '\\)'), ('$$', '$$'), ('\\[', '\\]')]


def items_strategy(signame, depth, mode, in_bracket, max_size=4):
    key = (signame, depth, mode, in_bracket, max_size)
    if key in _ST_CACHE:
        return _ST_CACHE[key]
    sig = SIGS[signame]

    @st.composite
    def one_item(draw):
        r = draw(_S_INT)
        if sig.get('mathy') and depth > 0:
            # remap so that math / mode-switching constructs dominate
            r = 30 + (r * 7) // 10 if r >= 25 else r
            if r >= 72:
                r = 86 + (r - 72) // 4      # 86..92 -> math
        if depth <= 0 or r < 45:
            q = r % 9 if depth > 0 else draw(_S_INT) % 9
            if q <= 2:
                if draw(_S_INT) < 12:
                    return ['text', draw(st.sampled_from(['[a]', '[', ']', '[x] y', 'a]', '*', '[]']))]
                return ['text', draw(_S_TEXT)]
            if q <= 4:
                return ['space', draw(_S_WS_INLINE)]
            if q == 5:
                return ['specials', draw(st.sampled_from(sig['specials']))]
            if q == 6:
                return _draw_comment(draw)
            if q == 7:
                return ['par', draw(_S_PAR)]
            return ['text', draw(_S_TEXT)]
        if r < 55:
            return ['group', draw(items_strategy(signame, depth - 1, mode, False))]
        if r < 78:
            return _draw_macro(draw, signame, depth, mode)
        if r < 86:
            return _draw_env(draw, signame, depth, mode)
        if r < 93:
            if mode != 'math':
                d = draw(st.sampled_from(MATH_DELIMS))
                return ['math', d[0], d[1], draw(items_strategy(signame, depth - 1, 'math', False))]
            return _draw_macro(draw, signame, depth, mode)
        if r < 97:
            if sig.get('verb') and mode != 'math':
                if draw(_S_INT) < 50:
                    d = draw(st.sampled_from(['|', '!', '+']))
                    t = draw(st.text(alphabet='ab {}\\%$', max_size=5))
                    return ['verb', d, t.replace(d, '')]
                return ['verbatimenv', draw(st.text(alphabet='ab {}\\%$\n', max_size=8))]
            return ['group', draw(items_strategy(signame, depth - 1, mode, False))]
        if in_bracket:
            return ['bgroup', draw(items_strategy(signame, depth - 1, mode, True))]
        return ['text', draw(_S_TEXT)]

    s = st.lists(one_item(), max_size=max_size)
    _ST_CACHE[key] = s
    return s


def document_strategy(ctxnames=('default', 'every'), depth=3, max_size=5):
    """Strategy for (ctxname, normalised AST)."""
    @st.composite
    def doc(draw):
        ctxname = draw(st.sampled_from(list(ctxnames)))
        items = draw(items_strategy(ctxname, depth, 'text', False, max_size))
        return (ctxname, normalise(items, SIGS[ctxname]))
    return doc()


def source_strategy(ctxnames=('default', 'every'), depth=3):
    return document_strategy(ctxnames, depth).map(lambda d: (d[0], render(d[1])))


# ---------------------------------------------------------------------------
# normalisation: rewrite an arbitrary generated AST into canonical form

TRIGGERS = {'o': '[', 'onosp': '[', 's': '*', 't': None, 'd': None}


def _slot_trigger(slot):
    k = slot['k']
    if k in ('o', 'onosp'):
        return '['
    if k == 's':
        return '*'
    if k == 't':
        return slot['x']
    if k == 'd':
        return slot['x'][0]
    return None


def _first_char(items):
    """first non-whitespace source character of the rendering of items ('' if none)"""
    s = render(items).lstrip()
    return s[:1]


def _sig_slots(item, sig):
    if item[0] == 'macro':
        return sig['macros'].get(item[1], [])
    if item[0] == 'env':
        return sig['envs'][item[1]][0]
    return []


def _norm_pre(pre, nl_before):
    """pre material: no two newline-bearing pieces in a row (would be a paragraph break)"""
    out = []
    nl = nl_before
    for p in pre:
        p = list(p)
        if p[0] == 'space':
            if '\n' in p[1] and nl:
                p[1] = ' '
            nl = nl or ('\n' in p[1])
            # merge consecutive spaces
            if out and out[-1][0] == 'space':
                if '\n' in out[-1][1] and '\n' in p[1]:
                    p[1] = ' '
                out[-1][1] += p[1]
                continue
        elif p[0] == 'comment':
            if not p[2]:
                p[2] = '\n'
            nl = True
        out.append(p)
    return out


def _norm_slots(item_slots, sigslots, sig):
    """present-before-absent for consecutive same-trigger optional slots; recursive
    normalisation of contents; absent optional slots must not be followed by their
    trigger character."""
    slots = [None if s is None else list(s) for s in item_slots]
    # consecutive optional slots with the same trigger: present ones first
    i = 0
    while i < len(slots):
        j = i
        trig = _slot_trigger(sigslots[i])
        if trig is not None and sigslots[i]['k'] in ('o', 'd'):
            while j + 1 < len(slots) and sigslots[j + 1]['k'] == sigslots[i]['k'] \
                    and _slot_trigger(sigslots[j + 1]) == trig:
                j += 1
            if j > i:
                run = slots[i:j + 1]
                run.sort(key=lambda s: s is None)
                slots[i:j + 1] = run
        i = j + 1
    out = []
    for sl, sg in zip(slots, sigslots):
        if sl is None:
            out.append(None)
            continue
        form, pre, content = sl
        pre = _norm_pre(pre, False)
        if form in ('braced', 'bracket') and sg.get('mode') == 'math':
            content = _no_pars(content)
        if form == 'braced':
            content = normalise(content, sig)
        elif form == 'bracket':
            # in_bracket carries the opening delimiter of this slot: nested bracket groups are
            # written with the same pair
            content = normalise(content, sig, in_bracket=(_slot_trigger(sg) or (sg['x'][0] if sg.get('k') == 'r' else '[')))
        elif form == 'token':
            content = list(content)
            if content[0] == 'macro' and is_control_word(content[1]):
                # a control word used as single-token argument must not run into a following
                # letter, and its trailing space must not combine with a following newline
                # into a paragraph break: it always carries exactly one blank
                content[2] = ' '
        elif form == 'verb':
            o, c, t = content
            if o == c:
                t = t.replace(o, '')
            else:
                # bracket-like delimiters nest: keep the text balanced (drop a closer that has
                # no opener, close what is still open at the end)
                depth, kept = 0, []
                for ch in t:
                    if ch == o:
                        depth += 1
                    elif ch == c:
                        if depth == 0:
                            continue
                        depth -= 1
                    kept.append(ch)
                t = ''.join(kept) + c * depth
            content = [o, c, t]
        out.append([form, pre, content])
    # an absent slot followed (after optional whitespace) by its trigger char would be
    # read as present: a later *present* slot never starts with a trigger of an earlier
    # absent one except for star-vs-marker etc; handle by checking rendered first chars
    for idx, (sl, sg) in enumerate(zip(out, sigslots)):
        if sl is not None:
            continue
        trig = _slot_trigger(sg)
        if trig is None:
            continue
        for later in out[idx + 1:]:
            if later is None:
                continue
            fc = _slot_first_char(later)
            if fc == trig:
                # make the later slot start differently: drop pre and brace it
                if later[0] == 'token':
                    later[0] = 'braced'
                    later[2] = [later[2]]
                later[1] = []
            break
    return out


def _slot_first_char(sl):
    s = _render_slot(sl, None).lstrip()
    return s[:1]


def _no_pars(items):
    """math material holds no blank line (a paragraph break inside a formula is an error in
    LaTeX, so such documents are outside every property's domain): replaced by a blank, at any
    depth"""
    out = []
    for it in items:
        it = list(it)
        k = it[0]
        if k == 'par':
            it = ['space', ' ']
        elif k in ('group', 'bgroup'):
            it[1] = _no_pars(it[1])
        elif k == 'macro':
            it[3] = [sl if (sl is None or sl[0] not in ('braced', 'bracket'))
                     else [sl[0], sl[1], _no_pars(sl[2])] for sl in it[3]]
        elif k == 'env':
            it[2] = [sl if (sl is None or sl[0] not in ('braced', 'bracket'))
                     else [sl[0], sl[1], _no_pars(sl[2])] for sl in it[2]]
            it[3] = _no_pars(it[3])
        elif k == 'math':
            it[3] = _no_pars(it[3])
        out.append(it)
    return out


def normalise(items, sig, in_bracket=False, _top=True):
    out = []
    for it in items:
        it = list(it)
        k = it[0]
        if k == 'text':
            s = it[1]
            if in_bracket:
                # no bracket-type delimiter characters in the text of any bracket argument
                for ch in '[]()':
                    s = s.replace(ch, '')
            if not s:
                continue
            it[1] = s
        elif k == 'group':
            it[1] = normalise(it[1], sig)
        elif k == 'bgroup':
            if not in_bracket:
                it = ['group', normalise(it[1], sig)]
            else:
                it[1] = normalise(it[1], sig, in_bracket=in_bracket)
        elif k == 'macro':
            sigslots = sig['macros'].get(it[1], [])
            it[3] = _norm_slots(it[3], sigslots, sig)
            if not is_control_word(it[1]):
                it[2] = ''
            else:
                first = next((sl for sl in it[3] if sl is not None), None)
                if first is not None and not first[1] and _slot_first_char(first).isalpha():
                    # "\\textbf a", never "\\textbfa"
                    first[1] = [['space', ' ']]
        elif k == 'env':
            sigslots = sig['envs'][it[1]][0]
            it[2] = _norm_slots(it[2], sigslots, sig)
            if sig['envs'][it[1]][1] == 'math':
                it[3] = _no_pars(it[3])
            it[3] = normalise(it[3], sig)
            trig = _has_trailing_absent(it, sig)
            rest = list(it[3])
            while rest and rest[0][0] in ('space', 'comment'):
                rest = rest[1:]     # blanks and comments do not protect (see _fix_adjacency_core)
            if trig and (_first_char(it[3]) in trig or _first_char(rest) in trig):
                # the body must not start with what an absent optional argument looks for
                it[3] = [['group', []]] + it[3]
        elif k == 'math':
            body = _no_pars(it[3])
            body = normalise(body, sig)
            if it[1] == '$' and not render(body).strip():
                body = [['text', 'x']]
            # a body starting or ending with '$'-like material is impossible (no bare $ items)
            it[3] = body
        elif k == 'comment':
            if not it[2]:
                it[2] = '\n'
        elif k == 'verbatimenv':
            it[1] = it[1].replace('\\end{verbatim}', '')
        out.append(it)
    out = _fix_adjacency(out, sig, in_bracket)
    return out


def _ends_with_newline_ws(it):
    """does the rendering of this item end in whitespace that contains a newline?"""
    k = it[0]
    if k == 'space':
        return '\n' in it[1]
    if k == 'comment':
        return True
    if k == 'macro':
        if all(s is None for s in it[3]):
            return '\n' in it[2]
        return False
    return False


def _has_trailing_absent(it, sig, after_space=False):
    """trigger characters of absent optional slots after the last present one; a slot that
    does not accept leading whitespace (the line-break macro's [..]) is not triggered after
    whitespace"""
    sigslots = _sig_slots(it, sig)
    slots = it[3] if it[0] == 'macro' else it[2]
    trig = set()
    for sl, sg in reversed(list(zip(slots, sigslots))):
        if sl is not None:
            break
        if after_space and sg['k'] == 'onosp':
            continue
        t = _slot_trigger(sg)
        if t:
            trig.add(t)
    return trig


MULTI_SPECIALS = {'default': ['---', '--', '``', "''", '!`', '?`'], 'every': ['++']}


def _sanitise_newlines(items):
    """no two newline-bearing whitespace pieces in a row (that would be a paragraph break
    the AST does not contain)"""
    nl = False      # the rendering so far ends with a whitespace run that contains a newline
    out = []
    for it in items:
        it = list(it)
        k = it[0]
        if k == 'space':
            if nl and '\n' in it[1]:
                it[1] = it[1].replace('\n', ' ')
            nl = nl or ('\n' in it[1])
        elif k == 'text':
            if it[1].strip():
                nl = False
        elif k == 'comment':
            nl = True
        elif k == 'macro' and all(sl is None for sl in it[3]):
            nl = '\n' in it[2]
        else:
            nl = False
        out.append(it)
    return out


def _separate_specials(items, sig):
    """insert {} where the end of one item and the start of the next would fuse into a
    multi-character specials sequence of the context"""
    multi = MULTI_SPECIALS['every' if 'mstar' in sig['macros'] or 'mmath' in sig['macros']
                           else 'default']
    out = []
    for it in items:
        if out and it[0] not in ('par', 'space') and out[-1][0] not in ('par', 'space'):
            tail = render([out[-1]])[-2:]
            head = render([it])[:2]
            joined = tail + head
            fuse = False
            for q in multi:
                i = joined.find(q)
                while i >= 0:
                    if i < len(tail) < i + len(q):
                        fuse = True
                    i = joined.find(q, i + 1)
            if fuse:
                out.append(['group', []])
        out.append(it)
    return out


def _fix_adjacency(items, sig, in_bracket):
    items = _sanitise_newlines(items)
    items = _fix_adjacency_core(items, sig, in_bracket)
    items = _sanitise_newlines(items)
    return _separate_specials(items, sig)


def _fix_adjacency_core(items, sig, in_bracket):
    out = []
    for it in items:
        k = it[0]
        prev = out[-1] if out else None
        if k == 'text' and it[1] and not it[1].strip():
            # blank-only text is whitespace: the whitespace rules below must see it as such
            it = ['space', it[1]]
            k = 'space'
        # merge text / space runs
        if k == 'space' and prev is not None and prev[0] == 'space':
            if '\n' in prev[1] and '\n' in it[1]:
                it = ['space', it[1].replace('\n', ' ')]
            prev[1] += it[1]
            continue
        if k == 'par' and prev is not None and prev[0] == 'par':
            prev[1] += it[1]
            continue
        if k == 'par' and prev is not None and prev[0] == 'space' and len(out) >= 2 \
                and out[-2][0] == 'par':
            # par, blanks, par -> one par
            out.pop()
            out[-1][1] += prev[1] + it[1]
            continue
        if k == 'text' and prev is not None and prev[0] == 'text':
            prev[1] += it[1]
            continue
        if k == 'space' and '\n' in it[1] and prev is not None and _ends_with_newline_ws(prev):
            it = ['space', it[1].replace('\n', ' ')]
        if prev is not None and prev[0] == 'macro' and is_control_word(prev[1]) \
                and all(s is None for s in prev[3]):
            # control word directly followed by a letter needs separating whitespace;
            # whitespace directly after it is the macro's own trailing space
            if k == 'text' and not prev[2] and it[1][:1].isalpha():
                prev[2] = ' '
            elif k == 'text' and prev[2] and it[1][:1].isspace():
                it = ['text', it[1].lstrip() or 'a']
            elif k == 'space':
                if '\n' in prev[2] and '\n' in it[1]:
                    it = ['space', it[1].replace('\n', ' ')]
                prev[2] += it[1]
                continue
        if prev is not None and prev[0] in ('macro', 'env') and k not in ('par',):
            trig = _has_trailing_absent(prev, sig) if prev[0] == 'macro' else set()
            if trig:
                fc = _first_char([it]) if k != 'comment' else '%'
                if k == 'bgroup':
                    fc = in_bracket if isinstance(in_bracket, str) else '['
                if k == 'space':
                    fc = None   # decided when the next item arrives
                if fc and fc in trig:
                    out.append(['group', []])
        if prev is not None and prev[0] in ('space', 'comment') and k not in ('par', 'comment',
                                                                              'space'):
            # "\item [", "\item%c<nl>[": blanks and comments do not protect an absent trailing
            # optional argument from a following trigger character (LaTeX reads it as the
            # argument); insert {} directly after the macro
            j = len(out) - 1
            while j >= 0 and out[j][0] in ('space', 'comment'):
                j -= 1
            if j >= 0 and out[j][0] == 'macro':
                trig = _has_trailing_absent(out[j], sig, after_space=True)
                if trig and ((in_bracket if isinstance(in_bracket, str) else '[')
                             if k == 'bgroup' else _first_char([it])) in trig:
                    out.insert(j + 1, ['group', []])
        # ligature-forming pairs only as explicit specials: separate char runs that would
        # fuse with a neighbouring specials item
        if k == 'specials' and prev is not None and prev[0] == 'specials':
            out.append(['group', []])
        out.append(it)
    # text never starts with whitespace after control word handled above; text with
    # leading blanks elsewhere is fine.
    return out


# ---------------------------------------------------------------------------
# rendering.  Everything goes through one routine that emits (text, mode) chunks,
# where mode = (in_math, opening delimiter) is the mode LaTeX structure implies for
# a node *starting* at that character (C10): a construct's own delimiters / name
# carry the mode of the list it sits in, its contents the inner mode.

TEXT = (False, None)


def _slot_mode(sg, mode):
    m = sg.get('mode') if sg else None
    if m == 'math':
        return (True, None)
    if m == 'text':
        return (False, None)
    return mode


def _emit_pre(pre, mode, out):
    for p in pre:
        if p[0] == 'space':
            out.append((p[1], mode))
        else:
            out.append(('%' + p[1] + p[2], mode))


def _emit_slot(sl, sg, mode, out, maths):
    form, pre, content = sl
    am = _slot_mode(sg, mode)
    _emit_pre(pre, mode, out)
    if form == 'braced':
        out.append(('{', am))
        _emit(content, am, None, out, maths)
        out.append(('}', am))
    elif form == 'token':
        _emit([content], am, None, out, maths)
    elif form == 'star':
        out.append(('*', am))
    elif form == 'marker':
        out.append((content, am))
    elif form == 'bracket':
        o, c = ('[', ']')
        if sg is not None and sg['k'] in ('r', 'd'):
            o, c = sg['x'][0], sg['x'][1]
        out.append((o, am))
        _emit(content, am, (o, c), out, maths)
        out.append((c, am))
    elif form == 'verb':
        out.append((content[0] + content[2] + content[1], am))
    else:
        raise ValueError(form)


def _emit(items, mode, bracket, out, maths):
    for it in items:
        k = it[0]
        if k in ('text', 'space', 'par'):
            out.append((it[1], mode))
        elif k == 'group':
            out.append(('{', mode))
            _emit(it[1], mode, None, out, maths)
            out.append(('}', mode))
        elif k == 'bgroup':
            o, c = bracket or ('[', ']')
            out.append((o, mode))
            _emit(it[1], mode, bracket, out, maths)
            out.append((c, mode))
        elif k == 'comment':
            out.append(('%' + it[1] + it[2], mode))
        elif k == 'specials':
            out.append((it[1], mode))
        elif k == 'macro':
            out.append(('\\' + it[1], mode))
            sigslots = _lookup_slots('macros', it[1], len(it[3]))
            if all(sl is None for sl in it[3]):
                out.append((it[2], mode))
            for sl, sg in zip(it[3], sigslots):
                if sl is not None:
                    _emit_slot(sl, sg, mode, out, maths)
        elif k == 'env':
            out.append(('\\begin{' + it[1] + '}', mode))
            sigslots = _lookup_slots('envs', it[1], len(it[2]))
            for sl, sg in zip(it[2], sigslots):
                if sl is not None:
                    _emit_slot(sl, sg, mode, out, maths)
            bm = _env_body_mode(it[1])
            inner = (True, None) if bm == 'math' else mode
            _emit(it[3], inner, None, out, maths)
            out.append(('\\end{' + it[1] + '}', mode))
        elif k == 'math':
            pos = sum(len(t) for t, _ in out)
            rec = [pos, None, it[1], it[2], 'inline' if it[1] in ('$', '\\(') else 'display', mode]
            maths.append(rec)
            out.append((it[1], mode))
            _emit(it[3], (True, it[1]), None, out, maths)
            out.append((it[2], mode))
            rec[1] = sum(len(t) for t, _ in out)
        elif k == 'verb':
            out.append(('\\verb' + it[1] + it[2] + it[1], mode))
        elif k == 'verbatimenv':
            out.append(('\\begin{verbatim}' + it[1] + '\\end{verbatim}', mode))
        else:
            raise ValueError('unknown item %r' % (it,))


def _env_body_mode(name):
    for sig in (SIGS['every'], SIGS['default'], SIGS['c12']):
        if name in sig['envs']:
            return sig['envs'][name][1]
    return None


def render(items, bracket=None, sig=None):
    out = []
    _emit(items, TEXT, bracket, out, [])
    return ''.join(t for t, _ in out)


def render_modes(items):
    """(source, per-character expected mode list, math records)"""
    out, maths = [], []
    _emit(items, TEXT, None, out, maths)
    src = ''.join(t for t, _ in out)
    modes = []
    for t, m in out:
        modes.extend([m] * len(t))
    return src, modes, [tuple(r) for r in maths]


def _render_slot(sl, sg):
    out = []
    _emit_slot(sl, sg, TEXT, out, [])
    return ''.join(t for t, _ in out)


def _lookup_slots(what, name, n):
    """slot signatures (delimiters of r/d arguments, argument modes); names are unique
    across the signature tables"""
    for sig in (SIGS['every'], SIGS['default'], SIGS['c12']):
        if what == 'macros' and name in sig['macros'] and len(sig['macros'][name]) == n:
            return sig['macros'][name]
        if what == 'envs' and name in sig['envs'] and len(sig['envs'][name][0]) == n:
            return sig['envs'][name][0]
    return [None] * n


# ---------------------------------------------------------------------------
# expected structure (C02): what was written, independent of pylatexenc

def _nows(s):
    return ''.join(s.split())


def _merge_chars(seq):
    """merge adjacent chars entries, drop those that are empty after whitespace removal"""
    out = []
    for e in seq:
        if e[0] == 'chars':
            if out and out[-1][0] == 'chars':
                out[-1] = ['chars', out[-1][1] + e[1]]
            else:
                out.append(['chars', e[1]])
        else:
            out.append(e)
    return [e for e in out if not (e[0] == 'chars' and e[1] == '')]


def _slot_structure(sl, sg, bracket, par_special=True):
    if sl is None:
        return None
    form, pre, content = sl
    if form == 'braced':
        return ['group', '{', '}', expected_structure(content, None, par_special)]
    if form == 'token':
        st_ = expected_structure([content], None, par_special)
        return st_[0] if st_ else ['chars', '']
    if form == 'star':
        return ['chars', '*']
    if form == 'marker':
        return ['chars', content]
    if form == 'bracket':
        o, c = ('[', ']')
        if sg is not None and sg['k'] in ('r', 'd'):
            o, c = sg['x'][0], sg['x'][1]
        return ['group', o, c, expected_structure(content, (o, c), par_special)]
    if form == 'verb':
        return ['group', content[0], content[1], [['vchars', content[2]]]]
    raise ValueError(form)


def expected_structure(items, bracket=None, par_special=True):
    """par_special: does the context declare the paragraph-break specials?  (if not, a
    paragraph break is plain whitespace)"""
    out = []
    for it in items:
        k = it[0]
        if k in ('text', 'space'):
            out.append(['chars', _nows(it[1])])
        elif k == 'par':
            out.append(['par'] if par_special else ['chars', ''])
        elif k == 'group':
            out.append(['group', '{', '}', expected_structure(it[1], None, par_special)])
        elif k == 'bgroup':
            o, c = bracket or ('[', ']')
            out.append(['group', o, c, expected_structure(it[1], bracket, par_special)])
        elif k == 'comment':
            out.append(['comment', it[1]])
        elif k == 'specials':
            out.append(['specials', it[1]])
        elif k == 'macro':
            sigslots = _lookup_slots('macros', it[1], len(it[3]))
            out.append(['macro', it[1], [_slot_structure(sl, sg, bracket, par_special)
                                         for sl, sg in zip(it[3], sigslots)]])
        elif k == 'env':
            sigslots = _lookup_slots('envs', it[1], len(it[2]))
            out.append(['env', it[1], [_slot_structure(sl, sg, bracket, par_special)
                                       for sl, sg in zip(it[2], sigslots)],
                        expected_structure(it[3], None, par_special)])
        elif k == 'math':
            typ = 'inline' if it[1] in ('$', '\\(') else 'display'
            out.append(['math', it[1], it[2], typ, expected_structure(it[3], None, par_special)])
        elif k == 'verb':
            out.append(['macro', 'verb', [['vchars', it[2]]]])
        elif k == 'verbatimenv':
            out.append(['env', 'verbatim', [['vchars', it[1]]], []])
        else:
            raise ValueError(it)
    return _merge_chars(out)
