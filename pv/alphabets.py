"""Token alphabets (DESIGN 3.1).  Each token is a source fragment."""

# The LaTeX-significant token alphabet.
SIG = [
    'a', 'b', '1', ' ', '\n',
    '{', '}', '[', ']', '*', '|', ',', '=',
    '$', '%', '~', '&', '-', "'", '`',
    '\\',
    '\\\\', '\\{', "\\'", '\\$',
    '\\alpha', '\\textbf', '\\frac', '\\sqrt', '\\item', '\\section',
    '\\verb',
    '\\(', '\\)', '\\[', '\\]',
    '\\begin{itemize}', '\\end{itemize}', '\\begin{equation}', '\\end{equation}',
    '\\begin{verbatim}', '\\end{verbatim}', '\\begin{x}', '\\end{x}',
    '\\begin', '\\begin{',
]

# legacy verbatim-type constructs of the default context (handled by the pylatexenc-2 style
# arguments parsers) and unusual spellings of \begin / \end; whitespace that Python's isspace()
# accepts but LaTeX does not treat as a blank
LEGACY = ['\\begin{lstlisting}', '\\end{lstlisting}', '\\begin{verbatim}', '\\end{verbatim}',
          '\\verb', '\\begin {x}', '\\end\n{x}', '\\begin{x}', '\\end{x}', '[', ']', '{', '}', '|',
          'a', ' ', '\n', '%', '\\', '\r', '\x0c', '\xa0', '\u2028', '\\section',
          # paragraph breaks longer than two newlines, right after a line-break macro or a heading
          '\\\\', '\n\n\n', '\n \n']

# Reduced alphabet for deeper exhaustive sweeps (one representative per token class).
SIG_SMALL = [
    'a', ' ', '\n', '{', '}', '[', ']', '$', '%', '~', '\\',
    '\\alpha', '\\textbf', '\\sqrt', '\\(', '\\)',
    '\\begin{x}', '\\end{x}',
]

# Tokens that carry structure (non-trivial soups contain at least one).
STRUCTURAL = set(SIG) - {'a', 'b', '1', ' ', '\n', ',', '=', '|', '*'}

# Tokens for the macros of the every-type custom context (pv.contexts.every_type_db)
EVERYTYPE_TOKENS = [
    '\\mstar', '\\mopt', '\\mmand', '\\mm', '\\mo', '\\ms', '\\mt', '\\mr', '\\md', '\\mv', '\\mvb',
    '\\mcombo', '\\mmath', '\\mtext', '\\begin{eenv}', '\\end{eenv}', '+', '<', '>',
    '\\me', '^', '_', '\\many', '\\manyo', '(', ')', '!',
]

MATH9 = ['$', 'a', '{', '}', ' ', '\\(', '\\)', '\\[', '\\]']

ACTIVE_ASCII = ['\\', '{', '}', '$', '%', '&', '#', '_', '^', '~']
