"""Termination monitor (DESIGN 4.3): counts token-reader primitive calls in the
harness process; a parse of n characters needs O(n) of them, so exceeding
``200*(n+8)`` is reported as non-termination -- deterministically, no clock."""
import contextlib

from .engine import exc_key


class NonTermination(BaseException):
    pass


_state = {'count': 0, 'limit': None, 'installed': False, 'max_ratio': 0.0}

_WRAPPED = ('peek_token', 'next_token', 'peek_chars', 'next_chars', 'skip_space_chars',
            'peek_space_chars')


def install():
    if _state['installed']:
        return
    from pylatexenc.latexnodes import LatexTokenReader

    def wrap(orig):
        def counted(self, *a, **kw):
            st = _state
            st['count'] += 1
            if st['limit'] is not None and st['count'] > st['limit']:
                st['limit'] = None      # raise once
                raise NonTermination('more than %d token-reader / node-conversion calls'
                                     % st['count'])
            return orig(self, *a, **kw)
        counted.__name__ = orig.__name__
        counted.__qualname__ = getattr(orig, '__qualname__', orig.__name__)
        return counted

    for name in _WRAPPED:
        if hasattr(LatexTokenReader, name):     # (a renamed primitive simply is not counted)
            setattr(LatexTokenReader, name, wrap(getattr(LatexTokenReader, name)))
    # the conversion stage of latex2text counts into the same budget: one unit per node rendered
    # (a node rendered 2^depth times is work that does not end either)
    try:
        from pylatexenc.latex2text import LatexNodes2Text
        if hasattr(LatexNodes2Text, 'node_to_text'):
            LatexNodes2Text.node_to_text = wrap(LatexNodes2Text.node_to_text)
    except ImportError:
        pass
    _state['installed'] = True


@contextlib.contextmanager
def budget(n_chars, factor=200):
    """Context manager; raises NonTermination inside the parse when exceeded."""
    install()
    _state['count'] = 0
    _state['limit'] = factor * (n_chars + 8)
    try:
        yield _state
    finally:
        r = _state['count'] / float(n_chars + 8)
        if r > _state['max_ratio'] and _state['limit'] is not None:
            _state['max_ratio'] = r
        _state['limit'] = None


def nonterm_key(e):
    return 'nontermination' + exc_key(e)[len('exc:NonTermination'):]
