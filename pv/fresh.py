"""Fresh-interpreter oracle (DESIGN 4.4): one parse per *new* python process."""
import json
import os
import subprocess
import sys
from concurrent.futures import ThreadPoolExecutor

from . import REPO, VERIF

_CODE = (
    "import sys, json; sys.path.insert(0, %r); import pv; "
    "from pv import fresh; fresh.worker_main()" % VERIF
)


def outcome(recipe, source, tolerant, ctx=None):
    """canonical outcome of one parse in *this* process: ('tree', dump) | ('error', type, pos,
    what) | ('exc', type)"""
    from . import contexts, px, monitor
    from .treedump import dump
    from pylatexenc.latexwalker import LatexWalkerParseError
    # 'recipe@parens': the parse starts in a parsing state that also has ( ) as group delimiters
    pskw = None
    if recipe.endswith('@parens'):
        pskw = {'latex_group_delimiters': [('{', '}'), ('(', ')')]}
    if ctx is None:
        ctx = contexts.build(recipe.split('@')[0])
    try:
        w, nl = px.parse(source, ctx, tolerant=tolerant, parsing_state_kw=pskw)
        return ['tree', dump(nl)]
    except LatexWalkerParseError as e:
        what = (getattr(e, 'error_type_info', None) or {}).get('what')
        return ['error', type(e).__name__, getattr(e, 'pos', None), what]
    except monitor.NonTermination:
        return ['nonterm']
    except Exception as e:
        return ['exc', type(e).__name__, str(e)[:120]]


def worker_main():
    job = json.loads(sys.stdin.read())
    res = outcome(job['recipe'], job['source'], job['tolerant'])
    sys.stdout.write(json.dumps(res, sort_keys=True))


def fresh_one(job):
    env = dict(os.environ, PV_REPO=REPO, PYTHONHASHSEED='0', PYTHONDONTWRITEBYTECODE='1')
    p = subprocess.run([sys.executable, '-B', '-c', _CODE], input=json.dumps(job), text=True,
                       capture_output=True, env=env, timeout=120)
    if p.returncode != 0:
        return ['fresh-interpreter-failed', p.stderr[-300:]]
    return json.loads(p.stdout)


def fresh_many(jobs, workers=16):
    """jobs: list of dicts(recipe, source, tolerant) -> list of outcomes (same order)"""
    with ThreadPoolExecutor(max_workers=workers) as ex:
        return list(ex.map(fresh_one, jobs))
