"""Shared machinery: failures, shard results, root-cause keys, hypothesis drivers.

A property function never raises on a violation.  It records
``Failure(key, detail, case)`` in a :class:`Result`; *key* is the root-cause
bucket, *case* is plain JSON data from which the failure can be replayed
without any generator.
"""
from __future__ import annotations

import hashlib
import json
import os
import sys
import traceback
from collections import Counter

from . import REPO


class HarnessError(Exception):
    """Something is wrong with the machinery itself (exit code 2)."""


def jdump(x):
    return json.dumps(x, sort_keys=True, ensure_ascii=True, separators=(',', ':'))


def digest(x):
    if not isinstance(x, (str, bytes)):
        x = jdump(x)
    if isinstance(x, str):
        x = x.encode('utf-8', 'surrogatepass')
    return hashlib.sha1(x).digest()[:8]


MAX_PER_KEY = 6
MAX_SAMPLES_PER_CLASS = 3


class Result(object):
    """What one shard (or a whole run, after merging) explored."""

    def __init__(self):
        self.evaluations = 0
        self.nontrivial = set()       # 8-byte digests of distinct non-trivial cases
        self.nontrivial_count = 0     # for shards whose cases are distinct by construction
        self.classes = Counter()
        self.samples = {}             # class label -> [case, ...]
        self.failures = {}            # key -> [ {key, detail, case}, ... ] (smallest first)
        self.failure_counts = Counter()
        self.notes = []
        self.exhaustive = None        # True/False for enumerations, None if n/a

    # -- recording ---------------------------------------------------------
    def case(self, n=1):
        self.evaluations += n

    def nontriv(self, case_id):
        """Count a non-trivial case; *case_id* identifies it for distinctness."""
        self.nontrivial.add(digest(case_id))

    def nontriv_distinct(self, n=1):
        """Count non-trivial cases known to be distinct by construction."""
        self.nontrivial_count += n

    def label(self, lab, case=None):
        self.classes[lab] += 1
        if case is not None:
            l = self.samples.setdefault(lab, [])
            if len(l) < MAX_SAMPLES_PER_CLASS:
                l.append(case)

    def fail(self, key, detail, case):
        self.failure_counts[key] += 1
        l = self.failures.setdefault(key, [])
        rec = {'key': key, 'detail': detail, 'case': case}
        l.append(rec)
        l.sort(key=lambda r: len(jdump(r['case'])))
        del l[MAX_PER_KEY:]

    # -- merging -----------------------------------------------------------
    def merge(self, other):
        self.evaluations += other.evaluations
        self.nontrivial |= other.nontrivial
        self.nontrivial_count += other.nontrivial_count
        self.classes.update(other.classes)
        for lab, l in other.samples.items():
            m = self.samples.setdefault(lab, [])
            for c in l:
                if len(m) < MAX_SAMPLES_PER_CLASS:
                    m.append(c)
        for key, l in other.failures.items():
            m = self.failures.setdefault(key, [])
            m.extend(l)
            m.sort(key=lambda r: len(jdump(r['case'])))
            del m[MAX_PER_KEY:]
        self.failure_counts.update(other.failure_counts)
        self.notes.extend(other.notes)
        if other.exhaustive is not None:
            self.exhaustive = (other.exhaustive if self.exhaustive is None
                               else (self.exhaustive and other.exhaustive))

    @property
    def distinct_nontrivial(self):
        return len(self.nontrivial) + self.nontrivial_count


# ---------------------------------------------------------------------------
# root-cause keys for crash-type violations

_PKG_DIR = os.path.join(REPO, 'pylatexenc') + os.sep


def exc_key(exc):
    """``exc:<Type>@<module>.<function>`` of the innermost pylatexenc frame."""
    tb = exc.__traceback__
    inner = None
    while tb is not None:
        fn = tb.tb_frame.f_code.co_filename
        if os.path.realpath(fn).startswith(_PKG_DIR):
            inner = tb.tb_frame
        tb = tb.tb_next
    if inner is None:
        return 'exc:%s@<outside-pylatexenc>' % type(exc).__name__
    mod = os.path.realpath(inner.f_code.co_filename)[len(_PKG_DIR):]
    mod = mod[:-3] if mod.endswith('.py') else mod
    mod = mod.replace(os.sep, '.')
    func = getattr(inner.f_code, 'co_qualname', inner.f_code.co_name)
    return 'exc:%s@%s.%s' % (type(exc).__name__, mod, func)


def exc_detail(exc):
    return '%s: %s' % (type(exc).__name__, str(exc)[:300])


# ---------------------------------------------------------------------------
# hypothesis drivers

def _hyp():
    import hypothesis
    try:
        # Hypothesis >= 6.13x seeds some draws with constants harvested from the source of
        # locally imported modules (ours and the library under test); generated inputs must
        # depend on the seed and the strategy only
        from hypothesis.internal.conjecture import providers as _prov
        if hasattr(_prov, '_get_local_constants') and not getattr(_prov, '_pv_patched', False):
            empty = _prov._get_local_constants()
            try:
                blank = type(empty)()
            except Exception:
                blank = None
            if blank is not None:
                _prov._get_local_constants = lambda: blank
                _prov._pv_patched = True
    except Exception:
        pass
    return hypothesis


def hyp_run(strategy, fn, max_examples, seed_value):
    """Run ``fn(example)`` on *max_examples* generated examples (generate phase
    only; ``fn`` records failures itself and must not raise for a violation)."""
    hypothesis = _hyp()
    from hypothesis import settings, given, Phase, HealthCheck

    @hypothesis.seed(seed_value)
    @settings(max_examples=max_examples, database=None, deadline=None,
              derandomize=False, report_multiple_bugs=False,
              phases=[Phase.generate],
              suppress_health_check=[HealthCheck.too_slow, HealthCheck.data_too_large,
                                     HealthCheck.large_base_example])
    @given(strategy)
    def runner(x):
        fn(x)

    try:
        runner()
    except hypothesis.errors.FailedHealthCheck as e:
        raise HarnessError('generator health check failed: %s' % e)


def hyp_shrink(strategy, predicate, max_examples, seed_value):
    """Minimise with Hypothesis' shrinker: return the smallest generated example
    for which ``predicate(example)`` is true (None if none is found)."""
    hypothesis = _hyp()
    from hypothesis import settings, given, Phase, HealthCheck

    class _Hit(Exception):
        pass

    last = []

    @hypothesis.seed(seed_value)
    @settings(max_examples=max_examples, database=None, deadline=None,
              derandomize=False, report_multiple_bugs=False,
              phases=[Phase.generate, Phase.shrink],
              suppress_health_check=list(HealthCheck))
    @given(strategy)
    def runner(x):
        if predicate(x):
            last[:] = [x]
            raise _Hit()

    try:
        runner()
    except _Hit:
        pass
    except Exception:   # flaky etc: keep whatever we have
        pass
    return last[0] if last else None


def ddmin(items, predicate):
    """Classic delta debugging over a list; ``predicate(sublist)`` is true when
    the failure of interest persists.  Returns a 1-minimal sublist."""
    items = list(items)
    n = 2
    while len(items) >= 2:
        chunk = max(1, len(items) // n)
        subsets = [items[i:i + chunk] for i in range(0, len(items), chunk)]
        reduced = False
        for i in range(len(subsets)):
            comp = [x for j, sub in enumerate(subsets) if j != i for x in sub]
            if comp and predicate(comp):
                items = comp
                n = max(n - 1, 2)
                reduced = True
                break
        if not reduced:
            if chunk == 1:
                break
            n = min(len(items), n * 2)
    # try single-element removal once more
    i = 0
    while i < len(items) and len(items) > 1:
        comp = items[:i] + items[i + 1:]
        if predicate(comp):
            items = comp
        else:
            i += 1
    return items


def format_exception(e):
    return ''.join(traceback.format_exception(type(e), e, e.__traceback__))[-4000:]
