"""Reference model of UnicodeToLatexEncoder.unicode_to_latex: a direct transcription
of the documented loop, interpreting plain-data rule descriptors (never the rule
objects handed to the encoder).

Rule descriptors:
  {'type': 'dict',  'map': {char: repl}, 'prot': <protection or None>}
  {'type': 'regex', 'items': [[pattern, replkind, repl]], 'prot': ...}   replkind 'tpl'|'fn'
  {'type': 'call',  'table': [[prefix, consumed, repl]], 'prot': ...}
  {'type': 'builtin', 'name': 'defaults'|'unicode-xml'}   (tables passed in by the caller)
Protection descriptors: 'none' | 'braces' | 'braces-all' | 'braces-almost-all' |
  'braces-after-macro' | 'callable' (wraps in < >).
"""
import re
import unicodedata


class Fail(Exception):
    pass


class Pred(object):
    """a chunk described by a predicate rather than an exact string"""

    def __init__(self, what, ch):
        self.what, self.ch = what, ch

    def matches(self, chunk):
        if not isinstance(chunk, str) or not chunk.isascii():
            return False
        if self.what == 'replace':
            return '?' in chunk
        if self.what == 'unihex':
            return ('U+%04X' % ord(self.ch)) in chunk
        return False

    def __repr__(self):
        return '<%s for U+%04X>' % (self.what, ord(self.ch))


_dangling = re.compile(r'\\[A-Za-z]+$')


def protect(repl, scheme):
    if scheme == 'none':
        return repl
    if scheme == 'braces':
        return '{' + repl + '}' if _dangling.search(repl) else repl
    if scheme == 'braces-all':
        return '{' + repl + '}'
    if scheme == 'braces-almost-all':
        return '{' + repl + '}' if repl[:1] == '\\' else repl
    if scheme == 'braces-after-macro':
        return repl + '{}' if _dangling.search(repl) else repl
    if scheme == 'callable':
        return '<' + repl + '>'
    raise ValueError(scheme)


def regex_repl(m, replkind, repl):
    if replkind == 'fn':
        return '[' + m.group() + ']'
    return m.expand(repl)


def match_rule(rule, s, pos, builtin_tables):
    """(consumed, replacement) or None"""
    t = rule['type']
    if t == 'dict':
        ch = s[pos]
        if ch in rule['map']:
            return 1, rule['map'][ch]
        return None
    if t == 'builtin':
        table = builtin_tables[rule['name']]
        o = ord(s[pos])
        if o in table:
            return 1, table[o]
        return None
    if t == 'regex':
        for pattern, replkind, repl in rule['items']:
            m = re.compile(pattern).match(s, pos)
            if m is not None:
                return m.end() - m.start(), regex_repl(m, replkind, repl)
        return None
    if t == 'call':
        for prefix, consumed, repl in rule['table']:
            if s.startswith(prefix, pos):
                return consumed, repl
        return None
    raise ValueError(t)


def encode(s, cfg, builtin_tables):
    """Returns the list of chunks (str or Pred).  Raises Fail for the 'fail' policy."""
    s = unicodedata.normalize('NFC', s)
    out = []
    pos = 0
    default_prot = cfg.get('protection', 'braces')
    policy = cfg.get('policy', 'keep')
    while pos < len(s):
        ch = s[pos]
        if cfg.get('non_ascii_only') and ord(ch) < 128:
            out.append(ch)
            pos += 1
            continue
        for rule in cfg['rules']:
            m = match_rule(rule, s, pos, builtin_tables)
            if m is not None:
                consumed, repl = m
                scheme = rule.get('prot') or default_prot
                out.append(protect(repl, scheme))
                pos += consumed
                break
        else:
            o = ord(ch)
            if 32 <= o <= 127 or ch in '\n\r\t':
                out.append(ch)
            elif policy == 'keep':
                out.append(ch)
            elif policy == 'ignore':
                out.append('')
            elif policy == 'fail':
                raise Fail(ch)
            elif policy in ('replace', 'unihex'):
                out.append(Pred(policy, ch))
            elif policy in ('callable', 'callable-u2lobj'):
                out.append('(U%d)' % o)
            else:
                raise ValueError(policy)
            pos += 1
    return out
