"""Reference model of LatexContextDb (documented semantics only; never calls the
code under test).  A model database is an ordered list of categories, each with
three name->spec dictionaries, plus unknown specs and a frozen flag."""

KINDS = ('macros', 'environments', 'specials')
AUTO = '<auto>'


class ModelError(Exception):
    """exc_type: the first applicable error; acceptable: every error whose condition holds (the
    order in which an implementation tests several violated preconditions is its own business)"""
    def __init__(self, exc_type, acceptable=None):
        Exception.__init__(self, exc_type)
        self.exc_type = exc_type
        self.acceptable = set(acceptable or [exc_type])


class ModelDb(object):
    def __init__(self):
        self.cats = []          # [ [name, {'macros': {...}, 'environments': {...}, 'specials': {...}}] ]
        self.unknown = {'macros': None, 'environments': None, 'specials': None}
        self.frozen = False
        self.flags = set()      # history of this database (for failure keys / classes)
        self.auto_counter = 0

    # -- queries -----------------------------------------------------------
    def categories(self):
        return [AUTO if c[0].startswith(AUTO) else c[0] for c in self.cats]

    def names(self):
        return [c[0] for c in self.cats]

    def lookup(self, kind, name):
        """(found, spec)"""
        for c in self.cats:
            if name in c[1][kind]:
                return True, c[1][kind][name]
        return False, self.unknown[kind]

    def iter_specs(self, kind, categories=None):
        out = []
        for c in self.cats:
            if categories is not None and c[0] not in categories:
                continue
            out.extend(c[1][kind].values())
        return out

    def test_for_specials(self, s, pos):
        """set of acceptable answers: longest match, first category wins a tie"""
        best = None
        bestlen = 0
        for c in self.cats:
            for chars, spec in c[1]['specials'].items():
                if len(chars) > bestlen and s.startswith(chars, pos):
                    best, bestlen = spec, len(chars)
        return best

    # -- operations --------------------------------------------------------
    def _new_auto(self):
        n = AUTO + str(self.auto_counter)
        self.auto_counter += 1
        return n

    def add_category(self, category, defs, placement=None, anchor=None, reserved=False,
                     two_placements=False):
        errs = []
        if self.frozen:
            errs.append('RuntimeError')
        if reserved or (category is not None and category in self.names()):
            errs.append('ValueError')
        if two_placements:
            errs.append('TypeError')
        if errs:
            raise ModelError(errs[0], errs)
        if category is None:
            category = self._new_auto()
        entry = [category, {k: dict(defs.get(k, {})) for k in KINDS}]
        names = self.names()
        if placement == 'prepend':
            i = 0
        elif placement == 'insert_before':
            i = names.index(anchor) if anchor in names else 0
        elif placement == 'insert_after':
            i = names.index(anchor) + 1 if anchor in names else len(names)
        else:
            i = len(names)
        self.cats.insert(i, entry)
        if placement:
            self.flags.add(placement)
        return category

    def set_unknown(self, kind, spec):
        if self.frozen:
            raise ModelError('RuntimeError')
        self.unknown[kind] = spec

    def freeze(self):
        self.frozen = True

    def filtered(self, keep_categories, exclude_categories, keep_which):
        new = ModelDb()
        new.unknown = dict(self.unknown)
        new.flags = set(self.flags) | {'filtered'}
        new.auto_counter = self.auto_counter
        for name, d in self.cats:
            if keep_categories and name not in keep_categories:
                continue
            if exclude_categories and name in exclude_categories:
                continue
            new.cats.append([name, {k: (dict(d[k]) if (not keep_which or k in keep_which) else {})
                                    for k in KINDS}])
        return new

    def extended(self, category, defs, unknown_overrides):
        errs = []
        if category is not None and category in self.names():
            errs.append('ValueError')
        if not self.frozen:
            errs.append('RuntimeError')
        if errs:
            raise ModelError(errs[0], errs)
        new = ModelDb()
        new.unknown = dict(self.unknown)
        new.unknown.update(unknown_overrides)
        new.flags = set(self.flags) | {'extended'}
        new.auto_counter = self.auto_counter
        new.frozen = True
        new.cats = [[n, {k: dict(d[k]) for k in KINDS}] for n, d in self.cats]
        if category is None and new.cats and new.cats[0][0].startswith(AUTO):
            for k in KINDS:
                new.cats[0][1][k].update(defs.get(k, {}))
            new.flags.add('extended-merge')
            return new
        if category is None:
            category = new._new_auto()
        new.cats.insert(0, [category, {k: dict(defs.get(k, {})) for k in KINDS}])
        return new
