"""Reference model for node-list splitting, working on the *source string* plus
the spans of the top-level chars nodes (separators inside child nodes never
split).  No pylatexenc code is called."""
import re


def sep_finder(kind):
    """kind: ('str', ',') | ('rx', pattern).  Returns f(text, pos) -> (a, b) or None."""
    if kind[0] == 'str':
        sep = kind[1]

        def f(text, pos):
            i = text.find(sep, pos)
            return None if i < 0 else (i, i + len(sep))
        return f
    rx = re.compile(kind[1])

    def g(text, pos):
        m = rx.search(text, pos)
        return None if m is None else (m.start(), m.end())
    return g


def separators(s, chars_spans, finder):
    """all separator occurrences (absolute offsets), searched left to right inside each
    top-level chars span separately, non-overlapping"""
    out = []
    for a, b in chars_spans:
        text = s[a:b]
        pos = 0
        while True:
            m = finder(text, pos)
            if m is None:
                break
            out.append((a + m[0], a + m[1]))
            if m[1] <= pos and m[1] <= m[0]:
                break       # empty match guard (not generated)
            pos = m[1]
    return out


def split_keep_empty(s, start, end, seps, max_split=None):
    """Python-style split of s[start:end] at the first max_split separators.
    Returns list of (a, b) part spans."""
    use = seps if max_split is None else seps[:max_split]
    parts = []
    cur = start
    for a, b in use:
        parts.append((cur, a))
        cur = b
    parts.append((cur, end))
    return parts


def first_top_level(s, span, seps_in_span):
    """for key=value: split the part span at the first separator inside it"""
    a, b = span
    for x, y in seps_in_span:
        if a <= x and y <= b:
            return (a, x), (y, b)
    return (a, b), None
