"""Reference model of latex2text for the core sublanguage (DESIGN 5.3).

Works on the generating AST (docgrammar item format, canonical form), never on
pylatexenc's node tree.  Implements only the rules written down in the
LatexNodes2Text class documentation and the strict_latex_spaces presets."""
import unicodedata

SYMBOLS = {
    'alpha': 'α', 'beta': 'β', 'gamma': 'γ', 'Omega': 'Ω', 'pi': 'π',
    'ldots': '…', 'oe': 'œ', 'ss': 'ß', 'l': 'ł', 'o': 'ø',
    'infty': '∞', 'textendash': '–', 'times': '×', 'leq': '≤',
    'to': '→', 'ae': 'æ',
    '&': '&', '$': '$', '{': '{', '}': '}', '#': '#', '_': '_', '%': '%',
    'i': 'ı', 'j': 'ȷ',
}
# accent macro -> Unicode combining character (the standard TeX <-> Unicode correspondence)
ACCENTS = {"'": '\u0301', '`': '\u0300', '"': '\u0308', 'c': '\u0327', '^': '\u0302',
           '~': '\u0303', 'v': '\u030c', 'hat': '\u0302', 'bar': '\u0305',
           'H': '\u030b', 'k': '\u0328', '=': '\u0304', '.': '\u0307', 'd': '\u0323',
           'r': '\u030a', 'u': '\u0306', 'b': '\u0331',
           'vec': '\u20d7', 'tilde': '\u0303', 'dot': '\u0307', 'ddot': '\u0308'}
DISPLAY_ENVS = ('equation', 'equation*', 'align', 'align*', 'gather', 'gather*', 'multline',
                'multline*', 'eqnarray', 'eqnarray*')
SPECIALS = {'~': ' ', '--': '–', '---': '—', '``': '“', "''": '”',
            '!`': '¡', '?`': '¿', '&': '   '}
FONT = ('textbf', 'emph', 'textit', 'textrm', 'textsc', 'textsl', 'text', 'mathrm')
LIST_ENVS = ('itemize', 'enumerate')
TRANSPARENT_ENVS = LIST_ENVS + ('x',)

PRESETS = {
    'based-on-source': {'between-macro-and-chars': False, 'between-latex-constructs': False,
                        'after-comment': False, 'in-equations': None},
    'macros': {'between-macro-and-chars': True, 'between-latex-constructs': True,
               'after-comment': False, 'in-equations': 'based-on-source'},
    'except-in-equations': {'between-macro-and-chars': True, 'between-latex-constructs': True,
                            'after-comment': True, 'in-equations': 'based-on-source'},
}


def policy(value):
    if value is False or value == 'macros':
        return dict(PRESETS['macros'])
    if value is True:
        return {'between-macro-and-chars': True, 'between-latex-constructs': True,
                'after-comment': True, 'in-equations': True}
    return dict(PRESETS[value])


def equation_policy(P):
    ie = P['in-equations']
    if ie is None:
        return P
    return policy(ie)


def is_bare_control_word(it):
    return it[0] == 'macro' and all(sl is None for sl in it[3])


# Points the documentation leaves open; the check accepts every combination (ALTERNATIVES):
#  'verbatim-display-newlines': display math kept verbatim with / without a newline around it
#  'minlen-strict': keep_braced_groups keeps a group whose content is *longer than* the minimum
#                   length (the doc's wording) rather than at least as long
ALTERNATIVES = [{}, {'verbatim-display-newlines': False}, {'minlen-strict': True},
                {'verbatim-display-newlines': False, 'minlen-strict': True}]


class Model(object):
    alt = {}

    def __init__(self, options, render):
        self.P0 = policy(options.get('strict_latex_spaces', False))
        self.math_mode = options.get('math_mode', 'text')
        self.keep_braced_groups = options.get('keep_braced_groups', False)
        self.render = render

    def text(self, items):
        return self.list(items, self.P0)

    # -- node list ---------------------------------------------------------
    def list(self, items, P):
        out = ''
        prev = None
        for i, it in enumerate(items):
            nxt = items[i + 1] if i + 1 < len(items) else None
            k = it[0]
            if k == 'text':
                if prev is not None and is_bare_control_word(prev) \
                        and not P['between-macro-and-chars']:
                    out += prev[2]
                if it[1].strip() == '':
                    out += it[1] if P['between-latex-constructs'] else ''
                else:
                    out += it[1]
            elif k == 'par':
                out += '\n\n'
            elif k == 'comment':
                out += '' if P['after-comment'] else it[2]
            elif k == 'group':
                out += self.group(it[1], P, '{', '}')
            elif k == 'specials':
                out += SPECIALS[it[1]]
            elif k == 'macro':
                out += self.macro(it, P)
            elif k == 'env':
                out += self.env(it, P)
            elif k == 'math':
                disp = it[1] in ('$$', '\\[')
                out += self.math(it[3], P, disp, it[1], it[2], self.render([it]))
            else:
                raise ValueError('not in the core sublanguage: %r' % (it,))
            prev = it
        return out

    def group(self, items, P, o, c):
        inner = self.list(items, P)
        if self.keep_braced_groups and (len(inner) > 2 if self.alt.get('minlen-strict')
                                        else len(inner) >= 2):
            return o + inner + c
        return inner

    def arg(self, sl, P):
        """text of an argument: contents of a braced group, or the single token"""
        if sl is None:
            return ''
        form, pre, content = sl
        if form in ('braced', 'bracket'):
            return self.list(content, P)
        if form == 'token':
            return self.list([content], P)
        return ''

    def macro(self, it, P):
        name, slots = it[1], it[3]
        if name in FONT:
            return self.arg(slots[0], P)
        if name in SYMBOLS:
            return SYMBOLS[name]
        if name in ACCENTS:
            # an accent over dotless i / j goes on the letter itself
            base = self.arg(slots[0], P).strip().replace('ı', 'i').replace('ȷ', 'j')
            return ''.join(unicodedata.normalize('NFC', ch + ACCENTS[name]) for ch in base)
        if name in ('frac',):
            return self.arg(slots[0], P) + '/' + self.arg(slots[1], P)
        if name == 'sqrt':
            return '√(' + self.arg(slots[1], P) + ')'
        if name == 'item':
            if slots[0] is None:
                return '\n  * '
            return '\n  ' + self.group(slots[0][2], P, '[', ']')
        raise ValueError('macro not in the core sublanguage: %r' % name)

    def env(self, it, P):
        name = it[1]
        if name in TRANSPARENT_ENVS:
            return self.list(it[3], P)
        if name in DISPLAY_ENVS:
            return self.math(it[3], P, True, '\\begin{%s}' % name, '\\end{%s}' % name,
                             self.render([it]))
        raise ValueError('environment not in the core sublanguage: %r' % name)

    def math(self, body, P, display, o, c, src):
        mm = self.math_mode
        if mm == 'remove':
            return ''
        if mm == 'verbatim':
            return ('\n' + src + '\n') if (display and self.alt.get(
                'verbatim-display-newlines', True)) else src
        content = self.list(body, equation_policy(P)).strip()
        if mm == 'with-delimiters':
            if display:
                return o + '\n' + content + '\n' + c
            return o + content + c
        if display:
            return '\n    ' + content.replace('\n', '\n    ') + '\n'
        return content
