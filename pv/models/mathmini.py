"""Reference parser for the 9-symbol language {$, a, {, }, space, \\(, \\), \\[, \\]}
(DESIGN 5, C10b).  Implements the documented rule: in math mode the expected
closing delimiter is tried first, otherwise the longest delimiter matches; a
math delimiter that is an opening delimiter opens a (possibly nested) formula;
braces group and inherit the mode.  No pylatexenc code."""

OPEN = {'$': ('$', 'inline'), '\\(': ('\\)', 'inline'), '$$': ('$$', 'display'),
        '\\[': ('\\]', 'display')}
DELIMS_BY_LEN = ['$$', '\\(', '\\)', '\\[', '\\]', '$']
TYPE = {'$': 'inline', '\\(': 'inline', '\\)': 'inline', '$$': 'display', '\\[': 'display',
        '\\]': 'display'}


class Reject(Exception):
    pass


class Out(object):
    def __init__(self, n):
        self.char_mode = [None] * n      # offset -> (in_math, delimiter) for chars
        self.maths = []                  # (start, end, displaytype, open, close, outer_mode)
        self.groups = []                 # (start, end, mode)


def parse(s):
    """Returns Out or raises Reject."""
    out = Out(len(s))
    pos = _body(s, 0, (False, None), None, out)
    if pos != len(s):
        raise Reject()
    return out


def _token(s, pos, mode):
    in_math, delim = mode
    if in_math and delim in OPEN:
        close, typ = OPEN[delim]
        if s.startswith(close, pos):
            return ('math', close, typ)
    for d in DELIMS_BY_LEN:
        if s.startswith(d, pos):
            return ('math', d, TYPE[d])
    c = s[pos]
    if c == '{':
        return ('open', c, None)
    if c == '}':
        return ('close', c, None)
    if c == '\\':
        raise Reject()      # lone backslash is not part of the language
    return ('char', c, None)


def _body(s, pos, mode, stop, out):
    n = len(s)
    while True:
        if pos >= n:
            if stop is None:
                return pos
            raise Reject()
        kind, text, typ = _token(s, pos, mode)
        if kind == 'char':
            out.char_mode[pos] = mode
            pos += 1
        elif kind == 'open':
            start = pos
            pos = _body(s, pos + 1, mode, '}', out)
            out.groups.append((start, pos, mode))
        elif kind == 'close':
            if stop == '}':
                return pos + 1
            raise Reject()
        else:
            if isinstance(stop, tuple) and text == stop[1] and typ == stop[2]:
                return pos + len(text)
            if text in OPEN:
                close, dtyp = OPEN[text]
                start = pos
                pos = _body(s, pos + len(text), (True, text), ('math', close, dtyp), out)
                out.maths.append((start, pos, dtyp, text, close, mode))
            else:
                raise Reject()
