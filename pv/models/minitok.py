"""Independent mini tokenizer for LaTeX source (no pylatexenc code).

``tokens(s)`` splits a source string into lexical tokens:
  control word  \\name (letters)            kind 'cw'   (trailing blanks are separate 'ws')
  control symbol \\<char>                    kind 'cs'
  \\begin{name} / \\end{name}                 kind 'begin' / 'end'
  comment %...<newline>                      kind 'comment' (up to and including the newline)
  whitespace run                             kind 'ws'
  any other single character                 kind 'ch'
"""
import re

_rx_env = re.compile(r'\\(begin|end)\s*\{([A-Za-z0-9*._ :/!^()\[\]-]+)\}')


def tokens(s):
    out = []
    i = 0
    n = len(s)
    while i < n:
        c = s[i]
        if c == '\\':
            m = _rx_env.match(s, i)
            if m and not (s[i + 1 + len(m.group(1)):i + 2 + len(m.group(1))].isalpha()):
                out.append((m.group(1), i, m.end()))
                i = m.end()
                continue
            if i + 1 >= n:
                out.append(('lone-escape', i, i + 1))
                i += 1
                continue
            if s[i + 1].isalpha() and s[i + 1].isascii():
                j = i + 2
                while j < n and s[j].isalpha() and s[j].isascii():
                    j += 1
                out.append(('cw', i, j))
                i = j
                continue
            out.append(('cs', i, i + 2))
            i += 2
            continue
        if c == '%':
            j = s.find('\n', i)
            j = n if j < 0 else j + 1
            out.append(('comment', i, j))
            i = j
            continue
        if c.isspace():
            j = i
            while j < n and s[j].isspace():
                j += 1
            out.append(('ws', i, j))
            i = j
            continue
        out.append(('ch', i, i + 1))
        i += 1
    return out


def boundaries(s):
    """Offsets between lexical tokens that are not inside a comment (the offset
    directly after a comment's newline counts as outside)."""
    offs = set([0, len(s)])
    for kind, a, b in tokens(s):
        offs.add(a)
        offs.add(b)
        if kind == 'comment' and not s[a:b].endswith('\n'):
            offs.discard(b)     # still inside the comment at end of input
    return sorted(offs)
