"""Walker contexts (DESIGN 3.4), described by *recipes* (plain data) so that a
fresh interpreter can rebuild the identical context."""


def default_db():
    from pylatexenc.latexwalker import get_default_latex_context_db
    return get_default_latex_context_db()


# name -> list of argument specs (strings, or (spec, 'math'|'text') pairs)
EVERY_TYPE_MACROS = {
    'mstar': ['*'],
    'mopt': ['['],
    'mmand': ['{'],
    'mm': ['m'],
    'mo': ['o'],
    'ms': ['s'],
    'mt': ['t+'],
    'mr': ['r<>'],
    'md': ['d<>'],
    'mv': ['v'],
    'mvb': ['v{}'],
    'mcombo': ['*', '[', '{', '{'],
    'mcombob': ['s', 't+', 'o', 'd<>', 'm'],
    'mmath': [('{', 'math')],
    'mtext': [('{', 'text')],
    'mnone': [],
    'me': ['e{^_}'],
    'many': ['AnyDelimited'],
    'manyo': ['AnyDelimitedOptional', 'm'],
    'mom': ['m', 'o'], 'mrp': ['r()', 'm'], 'mdp': ['d()'], 'mtb': ['t!', 'm'], 'mvm': ['m', 'v'],
    'mtp': [('m', 'text'), 'm'], 'mpm': ['m', ('m', 'math')],
    'mmpt': [('m', 'math'), 'm', ('m', 'text')],
}
EVERY_TYPE_ENVS = {
    'eenv': ['[', '{'],
    'emath': [],         # math-mode body
    'eplain': [],
    'e2-x:y': [],         # digits, dash and colon are allowed in environment names
    'esd': ['s', 'd()', 'm'],
    'ematharg': ['[', '{'],   # math-mode body, arguments in the outer mode
}
EVERY_TYPE_SPECIALS = {
    '~': [],
    '+': [],
    '++': [],
    '!': ['{'],
}


def _argspecs(lst):
    from pylatexenc.latexnodes import (LatexArgumentSpec, ParsingStateDeltaEnterMathMode,
                                       ParsingStateDeltaLeaveMathMode)
    out = []
    for a in lst:
        if isinstance(a, (tuple, list)):
            spec, mode = a
            delta = (ParsingStateDeltaEnterMathMode() if mode == 'math'
                     else ParsingStateDeltaLeaveMathMode())
            out.append(LatexArgumentSpec(spec, parsing_state_delta=delta))
        else:
            out.append(LatexArgumentSpec(a))
    return out


def every_type_db(unknown=True, as_strings=False):
    """One macro per standard argument type and some combinations."""
    from pylatexenc.macrospec import (LatexContextDb, MacroSpec, EnvironmentSpec, SpecialsSpec)
    from pylatexenc.latexnodes import ParsingStateDeltaEnterMathMode
    db = LatexContextDb()
    mk = (lambda l: list(l)) if as_strings else _argspecs
    macros = []
    for name, args in EVERY_TYPE_MACROS.items():
        if as_strings and any(isinstance(a, (tuple, list)) for a in args):
            macros.append(MacroSpec(name, arguments_spec_list=_argspecs(args)))
        else:
            macros.append(MacroSpec(name, arguments_spec_list=mk(args)))
    envs = []
    for name, args in EVERY_TYPE_ENVS.items():
        kw = {}
        if name in ('emath', 'ematharg'):
            kw['body_parsing_state_delta'] = ParsingStateDeltaEnterMathMode()
        envs.append(EnvironmentSpec(name, arguments_spec_list=mk(args), **kw))
    specials = [SpecialsSpec(ch, arguments_spec_list=mk(args))
                for ch, args in EVERY_TYPE_SPECIALS.items()]
    # '++' lives in a later category than its prefix '+': the longest specials sequence must win
    # whichever category declares it
    db.add_context_category('every', macros=macros, environments=envs,
                            specials=[sp for sp in specials if sp.specials_chars != '++'])
    db.add_context_category('every-later',
                            specials=[sp for sp in specials if sp.specials_chars == '++'])
    if unknown:
        db.set_unknown_macro_spec(MacroSpec(''))
        db.set_unknown_environment_spec(EnvironmentSpec(''))
    return db


def extra_parsers_db():
    """macros whose arguments use the less common parser classes of the library"""
    from pylatexenc.macrospec import LatexContextDb, MacroSpec, EnvironmentSpec
    from pylatexenc.latexnodes import LatexArgumentSpec
    from pylatexenc.latexnodes import parsers as P
    db = LatexContextDb()
    db.add_context_category('extra', macros=[
        MacroSpec('mcomma', [LatexArgumentSpec(P.LatexCharsCommaSeparatedListParser())]),
        MacroSpec('mcommak', [LatexArgumentSpec(
            P.LatexCharsCommaSeparatedListParser(keep_empty_parts=True))]),
        MacroSpec('mchars', [LatexArgumentSpec(P.LatexCharsGroupParser())]),
        MacroSpec('mtack', [LatexArgumentSpec('{'), LatexArgumentSpec(
            P.LatexTackOnInformationFieldMacrosParser(['ta', 'tb'], allow_multiple=['tb']))]),
        MacroSpec('mempty', [LatexArgumentSpec(
            P.LatexOptionalCharsMarkerParser(['+'], return_none_instead_of_empty=False))]),
        MacroSpec('me', [LatexArgumentSpec('e{^_}')]),
        MacroSpec('many', [LatexArgumentSpec('AnyDelimited')]),
        MacroSpec('mm', [LatexArgumentSpec('m')]),
        MacroSpec('msn', [LatexArgumentSpec(P.LatexSingleNodeParser())]),
    ], environments=[
        EnvironmentSpec('eenv', [LatexArgumentSpec('['), LatexArgumentSpec('{')]),
        # body read by the library's verbatim environment contents parser (the default
        # context's verbatim environment goes through the legacy arguments parser instead)
        EnvironmentSpec('vcode', make_body_parser=lambda token, nodeargd, delta:
                        P.LatexVerbatimEnvironmentContentsParser(environment_name='vcode')),
    ], specials=[])
    db.set_unknown_macro_spec(MacroSpec(''))
    db.set_unknown_environment_spec(EnvironmentSpec(''))
    return db


EXTRA_TOKENS = ['\\mcomma', '\\mcommak', '\\mchars', '\\mtack', '\\ta', '\\tb', '\\mempty', '\\me',
                '\\many', '\\mm', ',', '+', '^', '_', '(', ')', '{', '}', 'a', ' ', '%', '\\',
                '\\msn', '\\begin{vcode}', '\\end{vcode}', '\n\n']


def options_db():
    """macros whose argument parsers are built with non-default options, other parameterisations
    of the standard argument letters than the every-type context uses, and pylatexenc-2 style
    arguments parsers"""
    from pylatexenc.macrospec import (LatexContextDb, MacroSpec, EnvironmentSpec,
                                      MacroStandardArgsParser)
    from pylatexenc.latexnodes import LatexArgumentSpec
    from pylatexenc.latexnodes import parsers as P
    A = LatexArgumentSpec
    std = P.LatexStandardArgumentParser
    db = LatexContextDb()
    db.add_context_category('options', macros=[
        MacroSpec('ofull', [A(std('{', return_full_node_list=True))]),
        MacroSpec('onosp', [A(std('{', allow_pre_space=False))]),
        MacroSpec('oonosp', [A(std('[', allow_pre_space=False)), A('{')]),
        MacroSpec('omark', [A(P.LatexOptionalCharsMarkerParser(
            ['+', '-'], following_arg_parser=std('{'), max_num_args=2))]),
        MacroSpec('omarkb', [A(P.LatexOptionalCharsMarkerParser(
            ['++'], following_arg_parser=std('{'), include_chars_node_before_following_arg=False,
            return_full_node_list=False, max_num_args=1))]),
        MacroSpec('omarkg', [A(P.LatexOptionalCharsMarkerParser(
            ['+'], following_arg_parser=std('{'),
            collect_chars_with_following_arg_as_delimited_group=True))]),
        MacroSpec('osn', [A(P.LatexSingleNodeParser(stop_on_comment=False))]),
        MacroSpec('orr', [A('r()')]), MacroSpec('odd', [A('d()')]), MacroSpec('ott', [A('t!')]),
        MacroSpec('oee', [A('e{_}')]), MacroSpec('oom', [A('{'), A('[')]),
        # the no-blank-before option for the marker and delimited argument letters as well
        # (after a first argument: the blank after a control word belongs to the macro token)
        MacroSpec('osns', [A('{'), A(std('*', allow_pre_space=False))]),
        MacroSpec('otns', [A('{'), A(std('t!', allow_pre_space=False))]),
        MacroSpec('odns', [A('{'), A(std('d()', allow_pre_space=False))]),
        # control-symbol macros: no blank is swallowed by the macro token itself
        MacroSpec(';', [A(std('*', allow_pre_space=False))]),
        MacroSpec(':', [A(std('t!', allow_pre_space=False))]),
        # pylatexenc-2 parser objects with a star that is not the first slot / follows a control
        # symbol / belongs to an environment (a blank can stand before the star)
        MacroSpec('olegst', args_parser=MacroStandardArgsParser('{*{')),
        MacroSpec(',', args_parser=MacroStandardArgsParser('*[')),
        MacroSpec('olegacy', args_parser=MacroStandardArgsParser('*[{')),
        MacroSpec('olegns', args_parser=MacroStandardArgsParser('[{', optional_arg_no_space=True)),
    ], environments=[
        EnvironmentSpec('oenv', [A('s'), A('d()'), A('m')]),
        EnvironmentSpec('olegenv', args_parser=MacroStandardArgsParser('*{')),
    ], specials=[])
    db.set_unknown_macro_spec(MacroSpec(''))
    db.set_unknown_environment_spec(EnvironmentSpec(''))
    return db


def optget_db(flip):
    """argument parsers obtained from get_standard_argument_parser() (the library's process-wide
    parser cache) with keyword options; the two variants ask for the same argument letters and
    option names with opposite values"""
    from pylatexenc.macrospec import LatexContextDb, MacroSpec, EnvironmentSpec
    from pylatexenc.latexnodes import LatexArgumentSpec as A
    from pylatexenc.latexnodes.parsers import get_standard_argument_parser as g
    db = LatexContextDb()
    db.add_context_category('optget', macros=[
        MacroSpec('ogfull', [A(g('{', return_full_node_list=not flip))]),
        MacroSpec('ogsp', [A('{'), A(g('[', allow_pre_space=bool(flip)))]),
        MacroSpec('ogboth', [A(g('{', return_full_node_list=bool(flip), allow_pre_space=not flip))]),
        MacroSpec('ogplain', [A(g('{')), A(g('['))]),
    ])
    db.set_unknown_macro_spec(MacroSpec(''))
    db.set_unknown_environment_spec(EnvironmentSpec(''))
    return db


OPTIONS_TOKENS = ['\\ofull', '\\onosp', '\\oonosp', '\\omark', '\\omarkb', '\\omarkg', '\\osn',
                  '\\orr', '\\odd', '\\ott', '\\oee', '\\oom', '\\olegacy', '\\olegns',
                  '\\osns', '\\otns', '\\odns', '\\;', '\\:',
                  '\\begin{oenv}', '\\end{oenv}', '+', '-', '++', '{', '}', '[', ']', '(', ')', '!',
                  '_', 'a', ' ', '%', '\n\n', '*']


def extdelta_db(auto_first=True):
    """database whose first category is auto-named (or, auto_first=False, named: extending then
    creates a new category instead of merging), with an environment whose body extends the
    latex context (ParsingStateDeltaExtendLatexContextDb) by a macro taking an optional argument"""
    from pylatexenc.macrospec import (LatexContextDb, MacroSpec, EnvironmentSpec,
                                      ParsingStateDeltaExtendLatexContextDb)
    db = LatexContextDb()
    db.add_context_category('base', macros=[MacroSpec('textbf', '{')], environments=[
        EnvironmentSpec('defenv', '', body_parsing_state_delta=ParsingStateDeltaExtendLatexContextDb(
            extend_latex_context=dict(macros=[MacroSpec('entry', '[')], environments=[],
                                      specials=[]))),
        EnvironmentSpec('defenvb', '[', body_parsing_state_delta=ParsingStateDeltaExtendLatexContextDb(
            extend_latex_context=dict(macros=[MacroSpec('entry', '{{'), MacroSpec('textbf', '')],
                                      environments=[], specials=[]))),
    ])
    if auto_first:
        db.add_context_category(None, macros=[MacroSpec('auto', '[{')], prepend=True)
    else:
        db.add_context_category('named-first', macros=[MacroSpec('auto', '[{')], prepend=True)
    db.set_unknown_macro_spec(MacroSpec(''))
    db.set_unknown_environment_spec(EnvironmentSpec(''))
    return db


def build(recipe):
    if recipe == 'extra':
        return extra_parsers_db()
    if recipe == 'extdelta':
        return extdelta_db()
    if recipe == 'options':
        return options_db()
    if recipe in ('optget', 'optget2'):
        return optget_db(recipe == 'optget2')
    if recipe == 'extdelta2':
        return extdelta_db(auto_first=False)
    """recipe: 'default' | 'every' | 'every-nounknown' | 'every-strings' | 'extended'"""
    if recipe is None or recipe in ('default', 'default-fresh'):
        # ('default-fresh': the caller builds a new database for every parse, as LatexWalker(s)
        # without latex_context= does)
        return default_db()
    if recipe == 'every':
        return every_type_db(True)
    if recipe == 'every-unkspecials':
        # a catch-all specification for unknown specials as well (get_specials_spec() returns it
        # for any sequence that is not defined; it defines no specials itself)
        from pylatexenc.macrospec import SpecialsSpec
        db = every_type_db(True)
        db.set_unknown_specials_spec(SpecialsSpec(''))
        return db
    if recipe == 'every-nounknown':
        return every_type_db(False)
    if recipe == 'every-strings':
        return every_type_db(True, as_strings=True)
    if recipe == 'extended':
        from pylatexenc.macrospec import MacroSpec, EnvironmentSpec
        base = default_db()
        base.freeze()       # extended_with() requires a frozen database
        return base.extended_with(
            'pv-ext',
            macros=[MacroSpec('mcombo', '*[{{'), MacroSpec('mv', ['v'])],
            environments=[EnvironmentSpec('eenv', '[{')],
        )
    if recipe == 'c12':
        from pylatexenc.macrospec import MacroSpec, EnvironmentSpec
        base = default_db()
        base.add_context_category(
            'pv-c12',
            macros=[MacroSpec('dmac', '[{'), MacroSpec('dmacb', '{{')],
            environments=[EnvironmentSpec('denv', '[')],
            prepend=True,
        )
        return base
    raise ValueError('unknown context recipe %r' % (recipe,))


def l2t_c12_db():
    """default latex2text context plus text specs that discard the C12 constructs"""
    from pylatexenc import latex2text
    db = latex2text.get_default_latex_context_db()
    db.add_context_category(
        'pv-c12',
        macros=[latex2text.MacroTextSpec('dmac', discard=True),
                latex2text.MacroTextSpec('dmacb', discard=True)],
        environments=[latex2text.EnvironmentTextSpec('denv', discard=True)],
        prepend=True,
    )
    return db
