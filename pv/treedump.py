"""Canonical dump of a parse result (DESIGN 4.1): nested plain data built from
public attributes only."""

STATE_SKIP = ('s', 'latex_context')


def _kind(n):
    from pylatexenc.latexnodes import nodes as N
    if isinstance(n, N.LatexNodeList):
        return 'list'
    for cls, k in ((N.LatexCharsNode, 'chars'), (N.LatexGroupNode, 'group'),
                   (N.LatexCommentNode, 'comment'), (N.LatexMacroNode, 'macro'),
                   (N.LatexEnvironmentNode, 'environment'), (N.LatexSpecialsNode, 'specials'),
                   (N.LatexMathNode, 'math')):
        if isinstance(n, cls):
            return k
    if isinstance(n, (list, tuple)):
        return 'list'
    return 'other:' + type(n).__name__


def kind(n):
    return _kind(n)


def _jsonable(v):
    if isinstance(v, (str, int, float, bool)) or v is None:
        return v
    if isinstance(v, (list, tuple)):
        return [_jsonable(x) for x in v]
    if isinstance(v, (set, frozenset)):
        return sorted(_jsonable(x) for x in v)
    if isinstance(v, dict):
        return {str(k): _jsonable(x) for k, x in v.items()}
    return repr(type(v).__name__)


def state_fields(ps):
    if ps is None:
        return None
    d = ps.get_fields()
    return {k: _jsonable(v) for k, v in d.items() if k not in STATE_SKIP}


def argspec_str(a):
    p = getattr(a, 'parser', a)
    if isinstance(p, str):
        return p
    s = getattr(p, 'arg_spec', None)
    if isinstance(s, str):
        return s
    return type(p).__name__


def dump(n, positions=True, state=True, shift=0):
    """Nested plain-data dump of a node, node list, or None."""
    if n is None:
        return None
    k = _kind(n)
    d = {'k': k}
    if positions:
        p, pe = getattr(n, 'pos', None), getattr(n, 'pos_end', None)
        d['pos'] = None if p is None else p + shift
        d['pos_end'] = None if pe is None else pe + shift
    if k == 'list':
        items = n.nodelist if hasattr(n, 'nodelist') else list(n)
        d['nodes'] = [dump(x, positions, state, shift) for x in items]
        return d
    if k.startswith('other:'):
        return d
    if state:
        d['state'] = state_fields(getattr(n, 'parsing_state', None))
    if k == 'chars':
        d['chars'] = n.chars
    elif k == 'comment':
        d['comment'] = n.comment
        d['post_space'] = n.comment_post_space
    elif k == 'group':
        d['delimiters'] = _jsonable(n.delimiters)
        d['nodes'] = dump(n.nodelist, positions, state, shift)
    elif k == 'math':
        d['delimiters'] = _jsonable(n.delimiters)
        d['displaytype'] = n.displaytype
        d['nodes'] = dump(n.nodelist, positions, state, shift)
    elif k == 'macro':
        d['name'] = n.macroname
        d['post_space'] = n.macro_post_space
        d['args'] = dump_args(n.nodeargd, positions, state, shift)
    elif k == 'environment':
        d['name'] = n.environmentname
        d['args'] = dump_args(n.nodeargd, positions, state, shift)
        d['nodes'] = dump(n.nodelist, positions, state, shift)
    elif k == 'specials':
        d['chars'] = n.specials_chars
        d['args'] = dump_args(n.nodeargd, positions, state, shift)
    return d


def dump_args(nodeargd, positions=True, state=True, shift=0):
    if nodeargd is None:
        return None
    d = {'k': 'args'}
    argnlist = getattr(nodeargd, 'argnlist', None)
    d['argnlist'] = None if argnlist is None else [dump(a, positions, state, shift)
                                                   for a in argnlist]
    specs = getattr(nodeargd, 'arguments_spec_list', None)
    d['spec'] = None if specs is None else [argspec_str(a) for a in specs]
    # verbatim-style parsed arguments carry extra public data
    for extra in ('verbatim_text', 'verbatim_delimiters'):
        if hasattr(nodeargd, extra):
            d[extra] = _jsonable(getattr(nodeargd, extra))
    return d


def walk(n):
    """Yield every node (not lists) of a dump-independent traversal: arguments
    in order, then body.  Own child enumeration, not the library's visitor."""
    if n is None:
        return
    k = _kind(n)
    if k == 'list':
        items = n.nodelist if hasattr(n, 'nodelist') else list(n)
        for x in items:
            for y in walk(x):
                yield y
        return
    if k.startswith('other:'):
        return
    yield n
    if k in ('macro', 'environment', 'specials'):
        nad = n.nodeargd
        if nad is not None and getattr(nad, 'argnlist', None):
            for a in nad.argnlist:
                for y in walk(a):
                    yield y
    if k in ('group', 'math', 'environment'):
        for y in walk(n.nodelist):
            yield y


def kinds_present(n):
    return sorted(set(_kind(x) for x in walk(n)))
