"""C16 -- the pylatexenc-2 compatible API gives the same results as the new parsers."""
import itertools
import json

from .. import soups, contexts
from ..engine import exc_key, exc_detail, ddmin, Result, hyp_run
from ..treedump import dump as _full_dump, kind


def dump(n, **kw):
    # "the same nodes, positions and lengths": parsing-state fields are not part of the
    # comparison (check_legacy_states looks at the math-mode flag where it matters)
    kw.setdefault('state', False)
    return _full_dump(n, **kw)

ID = 'C16'
LEVEL = 'exploration'
RULE = ('(a) bounded-exhaustive token soups x every start position x legacy call variants: '
        'get_latex_nodes(pos, stop_upon_closing_brace in {}, ], )}, stop_upon_end_environment, '
        'stop_upon_closing_mathmode in {$, $$, \\), \\]}, read_max_nodes in {1,2,3}), '
        'get_latex_expression(strict_braces), get_latex_braced_group(brace_type in {{, [, (, <, '
        'pair}), get_latex_environment(name), get_latex_maybe_optional_arg, get_token(include_'
        'brace_chars, environments, brackets_are_chars); each compared with the equivalent '
        'pylatexenc-3 formulation written independently of the shim code (group / math / '
        'environment parsers on delimiter + rest, LatexSingleNodeParser, LatexExpressionParser, '
        'LatexDelimitedGroupParser, LatexOptionalSquareBracketsParser, LatexTokenReader.peek_token '
        'under the corresponding sub_context): canonical dumps, pos and len must be equal and '
        'failure parity must hold. (b) all 120 argument strings over {*, [, {} of length <= 4, '
        'each given through every legacy and new spelling (arguments_spec_list string, '
        'args_parser=string, args_parser=MacroStandardArgsParser, positional parser object, '
        'std_macro(name, argspec), std_macro(name, optarg, numargs), tuple forms, environment '
        'analogues), applied to generated call strings for that signature (every present/absent '
        'pattern, whitespace variants): call nodes, nodeoptarg/nodeargs views and positions must '
        'agree. Also: strict_braces None/False (documented empty result counts as failing), explicit '
        'parsing_state=, tolerant walkers, a math delimiter where a mandatory argument is expected. '
        'Non-trivial = call that consumes >= 1 argument or stops on a condition; distinct '
        'by (string, position, variant).')
ASSUMPTIONS = [
    'documented legacy post-processing is applied by the oracle: get_latex_expression() clears '
    'nodeargd of macro/specials nodes',
    'stop_upon_closing_mathmode is called with a parsing state that is already in that math mode '
    '(the docstring: "assumed already open")',
]
NSHARDS = 16
ALPHA = ['a', ' ', '{', '}', '[', ']', '(', ')', '<', '>', '$', '$$', '\\(', '\\)', '\\textbf', '\\alpha',
         '\\begin{x}', '\\end{x}', '%c\n', '~', '\\sqrt', '*']

_CTX = []


def ctx():
    if not _CTX:
        _CTX.append(contexts.build('default'))
    return _CTX[0]


_MODE = {'tolerant': False}


def walker(s):
    from pylatexenc.latexwalker import LatexWalker
    return LatexWalker(s, latex_context=ctx(), tolerant_parsing=_MODE['tolerant'])


def norm(x):
    return json.loads(json.dumps(x, sort_keys=True))


class _EmptyResult(Exception):
    pass


def attempt(fn):
    """('ok', value) | ('parse-error', what) | ('eos',) | ('exc', type)"""
    from pylatexenc.latexwalker import LatexWalkerParseError, LatexWalkerEndOfStream
    from pylatexenc.latexnodes import LatexWalkerError
    try:
        return ('ok', fn())
    except (LatexWalkerEndOfStream, _EmptyResult):
        return ('parse-error', None)
    except LatexWalkerError as e:        # any error of the library's own hierarchy is "it fails"
        return ('parse-error', None)
    except Exception as e:
        return ('exc', type(e).__name__, str(e)[:100])


def shifted_dump(nodes, shift):
    return norm(dump(nodes, shift=shift))


def clear_args_for_expression(d):
    """documented: get_latex_expression() returns macro/specials nodes with nodeargd=None"""
    if isinstance(d, dict) and d.get('k') in ('macro', 'specials', 'environment'):
        d = dict(d)
        d['args'] = None
    return d


def compare(name, legacy, new, res, case, note=''):
    """legacy/new: attempt() results whose 'ok' value is (dump, pos, len)"""
    res.case()
    if legacy[0] == 'exc':
        res.fail('exc:%s@legacy:%s' % (legacy[1], name), '%s raised %s: %s' % (name, legacy[1],
                                                                             legacy[2]), case)
        return
    if new[0] == 'exc':
        res.label('new-api-raised-foreign-exception')
        return
    if (legacy[0] == 'ok') != (new[0] == 'ok'):
        res.fail('c16:failure-parity:%s:%s' % (name, 'legacy-fails' if new[0] == 'ok'
                                               else 'legacy-succeeds'),
                 '%s: legacy API %r, equivalent new parser %r %s' % (name, legacy[:2], new[:2], note),
                 case)
        return
    if legacy[0] != 'ok':
        res.label('both-fail:' + name)
        return
    res.label('both-succeed:' + name, case)
    if legacy[1] is None or new[1] is None:
        if legacy[1] is not new[1]:
            res.fail('c16:differs:%s:none-vs-node' % name, '%s: legacy %s, new parser %s'
                     % (name, str(legacy[1])[:120], str(new[1])[:120]), case)
        return
    if legacy[1] != new[1]:
        ld, lp, ll = legacy[1]
        nd, np_, nl = new[1]
        which = 'nodes' if ld != nd else ('pos' if lp != np_ else 'len')
        res.fail('c16:differs:%s:%s' % (name, which),
                 '%s: legacy (pos=%r, len=%r, nodes=%s) vs new parser (pos=%r, len=%r, nodes=%s) %s'
                 % (name, lp, ll, str(ld)[:160], np_, nl, str(nd)[:160], note), case)


def _legacy_calls(pos):
    """the legacy entry points as (label, function of a walker)"""
    def tk(t):
        arg = t.arg
        if t.tok == 'specials':
            arg = arg.specials_chars
        return [t.tok, arg, t.pos, t.pos_end, t.pre_space]

    def triple(r):
        if r is None:
            return None
        n, p, l = r
        return (norm(dump(n)) if n is not None else None, p, l)
    return [
        ('get_token()', lambda w: tk(w.get_token(pos))),
        ('get_token(environments=False)', lambda w: tk(w.get_token(pos, environments=False))),
        ('get_token(brackets_are_chars=False)', lambda w: tk(w.get_token(pos, brackets_are_chars=False))),
        ('get_latex_expression', lambda w: triple(w.get_latex_expression(pos, strict_braces=True))),
        ('get_latex_maybe_optional_arg', lambda w: triple(w.get_latex_maybe_optional_arg(pos))),
        ('get_latex_braced_group([)', lambda w: triple(w.get_latex_braced_group(pos, brace_type='['))),
        ('get_latex_nodes(})', lambda w: triple(w.get_latex_nodes(pos, stop_upon_closing_brace='}'))),
        ('get_latex_nodes(read_max_nodes=1)', lambda w: triple(w.get_latex_nodes(pos, read_max_nodes=1))),
        ('get_latex_nodes($)', lambda w: triple(w.get_latex_nodes(pos, stop_upon_closing_mathmode='$'))),
        ('get_latex_braced_group({)', lambda w: triple(w.get_latex_braced_group(pos))),
        ('get_token() again', lambda w: tk(w.get_token(pos))),
        ('get_latex_expression again', lambda w: triple(w.get_latex_expression(pos, strict_braces=True))),
    ]


def check_same_walker(s, positions, res):
    """the legacy entry points called one after the other on ONE walker object (as pylatexenc-2
    code does) give what each gives on a walker of its own: no call leaves anything behind"""
    w = walker(s)
    for pos in positions:
        for label, fn in _legacy_calls(pos):
            res.case()
            a = attempt(lambda: fn(w))
            b = attempt(lambda: fn(walker(s)))
            if a[0] == 'exc':
                res.fail('exc:%s@legacy:%s' % (a[1], label), str(a),
                         {'what': 'same-walker', 's': s, 'pos': pos})
                return
            if a != b and b[0] != 'exc':
                res.fail('c16:same-walker-history:%s' % label,
                         '%r at %d: %s on a walker that served earlier calls gives %s, on a fresh '
                         'walker %s' % (s, pos, label, str(a)[:200], str(b)[:200]),
                         {'what': 'same-walker', 's': s, 'pos': pos})
                return
    res.label('same-walker-history')


def check_nodes_variants(s, pos, res):
    from pylatexenc.latexnodes import parsers as P
    w = walker(s)
    rest = s[pos:]
    # (1) closing brace '}' : contents of the group that the group parser reads on '{' + rest
    for closer, opener, as_pair in (('}', '{', False), (']', '[', False), (')', '(', False),
                                    ('}', '{', True), (']', '[', True), ('>', '<', True),
                                    ('>', '<', False)):
        case = {'what': 'nodes', 's': s, 'pos': pos, 'variant': 'closing-brace', 'arg': closer,
                'pair': as_pair}

        def legacy():
            arg = (opener, closer) if as_pair else closer
            nl, p, l = walker(s).get_latex_nodes(pos, stop_upon_closing_brace=arg)
            return (shifted_dump(nl, 0), p, l)

        def new():
            s2 = opener + rest
            w2 = walker(s2)
            tr = w2.make_token_reader()
            ps = w2.make_parsing_state()
            if opener != '{':
                # the legacy call promotes the pair to a group delimiter for the whole parse
                ps = ps.sub_context(latex_group_delimiters=list(ps.latex_group_delimiters)
                                    + [(opener, closer)])
            g, _ = w2.parse_content(P.LatexDelimitedGroupParser(delimiters=(opener, closer)),
                                    token_reader=tr, parsing_state=ps)
            shift = pos - 1
            nl = g.nodelist
            p0 = nl.pos + shift if nl.pos is not None else None
            return (shifted_dump(nl, shift), p0, (g.pos_end + shift) - p0)
        compare('get_latex_nodes(stop_upon_closing_brace=%s%s)' % (closer, ',pair' if as_pair else ''),
                attempt(legacy),
                attempt(new), res, case)
    # (2) end of environment
    case = {'what': 'nodes', 's': s, 'pos': pos, 'variant': 'end-environment', 'arg': 'x'}

    def legacy_env():
        nl, p, l = walker(s).get_latex_nodes(pos, stop_upon_end_environment='x')
        return (shifted_dump(nl, 0), p, l)

    def new_env():
        pre = '\\begin{x}'
        w2 = walker(pre + rest)
        nl, _ = w2.parse_content(P.LatexSingleNodeParser())
        env = nl[0]
        shift = pos - len(pre)
        body = env.nodelist
        p0 = body.pos + shift if body.pos is not None else pos
        return (shifted_dump(body, shift), p0, (env.pos_end + shift) - p0)
    compare('get_latex_nodes(stop_upon_end_environment)', attempt(legacy_env), attempt(new_env),
            res, case)
    # (2b) two stop conditions in one call: the list ends at whichever stop token comes first, i.e.
    # (strict walkers) it is what the one single-condition formulation that succeeds gives
    if not _MODE['tolerant']:
        case = {'what': 'nodes', 's': s, 'pos': pos, 'variant': 'combined-stops', 'arg': '}+x'}

        def legacy_c():
            nl, p, l = walker(s).get_latex_nodes(pos, stop_upon_closing_brace='}',
                                                 stop_upon_end_environment='x')
            return (shifted_dump(nl, 0), p, l)

        def new_brace():
            w2 = walker('{' + rest)
            g, _ = w2.parse_content(P.LatexDelimitedGroupParser(delimiters=('{', '}')))
            shift = pos - 1
            nl = g.nodelist
            p0 = nl.pos + shift if nl.pos is not None else None
            return (shifted_dump(nl, shift), p0, (g.pos_end + shift) - p0)
        a, b = attempt(new_brace), attempt(new_env)
        if (a[0] == 'ok') != (b[0] == 'ok'):
            compare('get_latex_nodes(closing_brace+end_environment)', attempt(legacy_c),
                    a if a[0] == 'ok' else b, res, case)
        elif a[0] != 'ok' and b[0] != 'ok' and a[0] != 'exc' and b[0] != 'exc':
            compare('get_latex_nodes(closing_brace+end_environment)', attempt(legacy_c), a, res, case)
    # (3) closing math mode, state already in that math mode
    for opener, closer in (('$', '$'), ('$$', '$$'), ('\\(', '\\)'), ('\\[', '\\]')):
        case = {'what': 'nodes', 's': s, 'pos': pos, 'variant': 'closing-mathmode', 'arg': closer}
        if opener == '$' and rest.startswith('$'):
            res.label('skipped:dollar-prefix-ambiguous')
            continue        # '$' + '$...' would read as the display delimiter

        def legacy_m():
            w1 = walker(s)
            ps = w1.make_parsing_state(in_math_mode=True, math_mode_delimiter=opener)
            nl, p, l = w1.get_latex_nodes(pos, stop_upon_closing_mathmode=closer, parsing_state=ps)
            return (shifted_dump(nl, 0), p, l)

        def new_m():
            w2 = walker(opener + rest)
            m, _ = w2.parse_content(P.LatexMathParser(math_mode_delimiters=opener))
            shift = pos - len(opener)
            nl = m.nodelist
            p0 = nl.pos + shift if nl.pos is not None else None
            return (shifted_dump(nl, shift), p0, (m.pos_end + shift) - p0)
        compare('get_latex_nodes(stop_upon_closing_mathmode=%s)' % closer, attempt(legacy_m),
                attempt(new_m), res, case)
    # (4) read_max_nodes=1
    case = {'what': 'nodes', 's': s, 'pos': pos, 'variant': 'read-max-nodes', 'arg': 1}

    def legacy_1():
        nl, p, l = walker(s).get_latex_nodes(pos, read_max_nodes=1)
        return (shifted_dump(nl, 0), p, l)

    def new_1():
        w2 = walker(s)
        tr = w2.make_token_reader(pos=pos)
        nl, _ = w2.parse_content(P.LatexSingleNodeParser(), token_reader=tr)
        return (shifted_dump(nl, 0), nl.pos, tr.cur_pos() - nl.pos)
    compare('get_latex_nodes(read_max_nodes=1)', attempt(legacy_1), attempt(new_1), res, case)
    for n in (2, 3):
        case = {'what': 'nodes', 's': s, 'pos': pos, 'variant': 'read-max-nodes', 'arg': n}

        def legacy_n():
            nl, p, l = walker(s).get_latex_nodes(pos, read_max_nodes=n)
            return (shifted_dump(nl, 0), p, l)

        def new_n():
            w2 = walker(s)
            tr = w2.make_token_reader(pos=pos)
            nl, _ = w2.parse_content(
                P.LatexGeneralNodesParser(stop_nodelist_condition=lambda l: len(l) >= n,
                                          require_stop_condition_met=False), token_reader=tr)
            return (shifted_dump(nl, 0), nl.pos, tr.cur_pos() - nl.pos)
        compare('get_latex_nodes(read_max_nodes=%d)' % n, attempt(legacy_n), attempt(new_n), res,
                case)


PS_VARIANTS = [{'in_math_mode': True}, {'enable_comments': False}, {'enable_macros': False},
               {'latex_group_delimiters': [('{', '}'), ('[', ']')]}, {'enable_specials': False}]


def check_single_variants(s, pos, res):
    from pylatexenc.latexnodes import parsers as P
    from pylatexenc.latexnodes import LatexTokenReader
    # expression
    case = {'what': 'expression', 's': s, 'pos': pos}

    def legacy_e():
        n, p, l = walker(s).get_latex_expression(pos, strict_braces=True)
        return (clear_args_for_expression(norm(dump(n))), p, l)

    def new_e():
        w2 = walker(s)
        tr = w2.make_token_reader(pos=pos)
        n, _ = w2.parse_content(P.LatexExpressionParser(return_full_node_list=False),
                                token_reader=tr)
        return (clear_args_for_expression(norm(dump(n))), n.pos, n.pos_end - n.pos)
    compare('get_latex_expression', attempt(legacy_e), attempt(new_e), res, case)
    # strict_braces None / False: where the new parser fails, the legacy call fails too -- by raising
    # or by its documented empty result (no node, or an empty chars node of length 0)
    for sb in (None, False):
        def legacy_ns():
            n, p, l = walker(s).get_latex_expression(pos, strict_braces=sb)
            if n is None or (l == 0 and getattr(n, 'chars', None) == ''):
                raise _EmptyResult()
            return (clear_args_for_expression(norm(dump(n))), p, l)

        def new_ns():
            v = new_e()
            if v[2] == 0 and v[0].get('k') == 'chars':
                raise _EmptyResult()
            return v
        compare('get_latex_expression(strict_braces=%r)' % (sb,), attempt(legacy_ns), attempt(new_ns),
                res, dict(case, what='expression-nonstrict', arg=sb))
    # the same entry points with an explicit parsing_state= (it must reach the parser)
    import zlib
    pskw = PS_VARIANTS[zlib.crc32(('%s@%d' % (s, pos)).encode('utf-8')) % len(PS_VARIANTS)]
    case = {'what': 'with-parsing-state', 's': s, 'pos': pos, 'arg': sorted(pskw)}

    def with_ps(which, legacy):
        w2 = walker(s)
        ps = w2.make_parsing_state(**pskw)
        if legacy:
            if which == 'expression':
                n, p, l = w2.get_latex_expression(pos, strict_braces=True, parsing_state=ps)
            elif which == 'braced_group':
                n, p, l = w2.get_latex_braced_group(pos, parsing_state=ps)
            else:
                r = w2.get_latex_maybe_optional_arg(pos, parsing_state=ps)
                if r is None:
                    return None
                n, p, l = r
            if n is None:
                return None         # nothing there (end of input): both sides say so
            d = norm(dump(n))
            return (clear_args_for_expression(d) if which == 'expression' else d, p, l)
        tr = w2.make_token_reader(pos=pos)
        parser = {'expression': P.LatexExpressionParser(return_full_node_list=False),
                  'braced_group': P.LatexDelimitedGroupParser(delimiters=('{', '}'),
                                                              allow_pre_space=True),
                  'optional': P.LatexDelimitedGroupParser(delimiters=('[', ']'), optional=True,
                                                          allow_pre_space=True)}[which]
        n, _ = w2.parse_content(parser, token_reader=tr, parsing_state=ps)
        if n is None:
            return None
        d = norm(dump(n))
        return (clear_args_for_expression(d) if which == 'expression' else d, n.pos,
                n.pos_end - n.pos)
    for which in ('expression', 'braced_group'):
        compare('%s(parsing_state=)' % which, attempt(lambda: with_ps(which, True)),
                attempt(lambda: with_ps(which, False)), res, dict(case, which=which))
    a, b = attempt(lambda: with_ps('optional', True)), attempt(lambda: with_ps('optional', False))
    res.case()
    if a[0] == 'exc':
        res.fail('exc:%s@legacy:get_latex_maybe_optional_arg(parsing_state=)' % a[1], str(a), case)
    elif a != b and b[0] != 'exc':
        res.fail('c16:differs:get_latex_maybe_optional_arg(parsing_state=)',
                 'legacy %s vs new %s' % (str(a)[:200], str(b)[:200]), dict(case, which='optional'))
    # braced group
    for bt, pair in (('{', ('{', '}')), ('[', ('[', ']')), ('(', ('(', ')')), ('<', ('<', '>')),
                     (('<', '>'), ('<', '>'))):
        case = {'what': 'braced-group', 's': s, 'pos': pos, 'arg': list(bt) if isinstance(bt, tuple) else bt}

        def legacy_b():
            n, p, l = walker(s).get_latex_braced_group(pos, brace_type=bt)
            return (norm(dump(n)), p, l)

        def new_b():
            w2 = walker(s)
            tr = w2.make_token_reader(pos=pos)
            n, _ = w2.parse_content(P.LatexDelimitedGroupParser(delimiters=pair,
                                                                allow_pre_space=True),
                                    token_reader=tr)
            return (norm(dump(n)), n.pos, n.pos_end - n.pos)
        compare('get_latex_braced_group(%s)' % (bt if isinstance(bt, str) else 'pair'),
                attempt(legacy_b), attempt(new_b), res, case)
    # environment
    for name in (None, 'x', 'y'):
        case = {'what': 'environment', 's': s, 'pos': pos, 'arg': name}

        def legacy_v():
            n, p, l = walker(s).get_latex_environment(pos, environmentname=name)
            return (norm(dump(n)), p, l)

        def new_v():
            from pylatexenc.latexwalker import LatexWalkerParseError
            w2 = walker(s)
            tr = w2.make_token_reader(pos=pos)
            nl, _ = w2.parse_content(P.LatexSingleNodeParser(), token_reader=tr)
            if not nl or len(nl) != 1 or kind(nl[0]) != 'environment':
                raise LatexWalkerParseError('not an environment')
            if name is not None and nl[0].environmentname != name:
                raise LatexWalkerParseError('wrong environment')
            return (norm(dump(nl[0])), nl[0].pos, nl[0].pos_end - nl[0].pos)
        compare('get_latex_environment', attempt(legacy_v), attempt(new_v), res, case)
    # optional argument
    case = {'what': 'optional-arg', 's': s, 'pos': pos}

    def legacy_o():
        r = walker(s).get_latex_maybe_optional_arg(pos)
        if r is None:
            return None
        n, p, l = r
        return (norm(dump(n)), p, l)

    def new_o():
        w2 = walker(s)
        tr = w2.make_token_reader(pos=pos)
        # the standard optional '[' argument of the new API accepts leading whitespace
        n, _ = w2.parse_content(P.LatexDelimitedGroupParser(delimiters=('[', ']'), optional=True,
                                                            allow_pre_space=True),
                                token_reader=tr)
        if n is None:
            return None
        return (norm(dump(n)), n.pos, n.pos_end - n.pos)
    a, b = attempt(legacy_o), attempt(new_o)
    res.case()
    if a[0] == 'exc':
        res.fail('exc:%s@legacy:get_latex_maybe_optional_arg' % a[1], str(a), case)
    elif a != b and b[0] != 'exc':
        res.fail('c16:differs:get_latex_maybe_optional_arg',
                 'legacy %s vs LatexOptionalSquareBracketsParser %s' % (str(a)[:200], str(b)[:200]),
                 case)
    else:
        res.label('both-%s:get_latex_maybe_optional_arg' % ('succeed' if a[0] == 'ok' and a[1]
                                                          else 'fail'))
    # token
    for kw, sub in (({}, {}),
                    ({'include_brace_chars': [('[', ']')]},
                     {'latex_group_delimiters': [('{', '}'), ('[', ']')]}),
                    ({'environments': False}, {'enable_environments': False}),
                    ({'brackets_are_chars': False},
                     {'latex_group_delimiters': [('{', '}'), ('[', ']')]}),
                    ({'brackets_are_chars': True}, {}),
                    # the options combined (each pair once), and the compatibility-only flag
                    ({'brackets_are_chars': False, 'environments': False},
                     {'latex_group_delimiters': [('{', '}'), ('[', ']')],
                      'enable_environments': False}),
                    ({'include_brace_chars': [('[', ']')], 'environments': False},
                     {'latex_group_delimiters': [('{', '}'), ('[', ']')],
                      'enable_environments': False}),
                    ({'include_brace_chars': [('<', '>')], 'environments': True},
                     {'latex_group_delimiters': [('{', '}'), ('<', '>')]}),
                    ({'environments': False, 'keep_inline_math': True},
                     {'enable_environments': False}),
                    ({'brackets_are_chars': True, 'environments': False},
                     {'enable_environments': False})):
        case = {'what': 'token', 's': s, 'pos': pos, 'arg': sorted(kw)}

        def tk(t):
            arg = t.arg
            if t.tok == 'specials':
                arg = arg.specials_chars
            return [t.tok, arg, t.pos, t.pos_end, t.pre_space, getattr(t, 'post_space', '')]

        def legacy_t():
            return tk(walker(s).get_token(pos, **kw))

        def new_t():
            w2 = walker(s)
            ps = w2.make_parsing_state(**sub) if sub else w2.make_parsing_state()
            r = LatexTokenReader(s, tolerant_parsing=_MODE['tolerant'])
            r.move_to_pos_chars(pos)
            return tk(r.peek_token(ps))
        a, b = attempt(legacy_t), attempt(new_t)
        res.case()
        if a[0] == 'exc':
            res.fail('exc:%s@legacy:get_token' % a[1], str(a), case)
        elif a != b and b[0] != 'exc':
            res.fail('c16:differs:get_token:%s' % ('+'.join(sorted(kw)) or 'default'),
                     'legacy %s vs LatexTokenReader.peek_token %s' % (a, b), case)
        else:
            res.label('token:' + a[0])


# ---------------------------------------------------------------------------
# (b) spec spellings

ARGSPECS = [''.join(t) for l in range(0, 5) for t in itertools.product('*[{', repeat=l)]
SUFFIXES = ['{}tail', '', ' ', 'x', '\n\nz', '}']
MISSING_ARG_TAILS = ['$y$', '\\(y\\)', '\\[y\\] z', '$$y$$']
SUFFIXES_ENV = [' body', '', 'body', '\n\nz']


def spellings(name, argspec, env=False, math=False):
    from pylatexenc.macrospec import (MacroSpec, EnvironmentSpec, MacroStandardArgsParser,
                                      std_macro, std_environment)
    S = EnvironmentSpec if env else MacroSpec
    std = std_environment if env else std_macro
    # math: the environment is declared with the pylatexenc-2 keyword is_math_mode=True
    kw = {'is_math_mode': True} if math else {}
    out = [('new:arguments_spec_list', lambda: S(name, argspec, **kw)),
           ('new:arguments_spec_list-kw', lambda: S(name, arguments_spec_list=argspec, **kw)),
           ('legacy:args_parser=string', lambda: S(name, args_parser=argspec, **kw)),
           ('legacy:args_parser=MacroStandardArgsParser',
            lambda: S(name, args_parser=MacroStandardArgsParser(argspec), **kw)),
           ('legacy:positional-MacroStandardArgsParser',
            lambda: S(name, MacroStandardArgsParser(argspec), **kw)),
           ('helper:std(name, argspec)', lambda: std(name, argspec, **kw)),
           ('helper:std((name, argspec))', lambda: std((name, argspec), **kw)),
           ('helper:std(name, None, argspec)', lambda: std(name, None, argspec, **kw))]
    rest = argspec[1:] if argspec[:1] == '[' else argspec
    if all(c == '{' for c in rest):
        optarg = argspec[:1] == '['
        out.append(('helper:std(name, optarg, numargs)', lambda: std(name, optarg, len(rest), **kw)))
        out.append(('helper:std((name, optarg, numargs))',
                    lambda: std((name, optarg, len(rest)), **kw)))
    return out


def call_strings(argspec):
    """call strings for the signature: every present/absent pattern of the optional slots, with
    and without whitespace before arguments"""
    opt_idx = [i for i, c in enumerate(argspec) if c in '*[']
    outs = []
    for pattern in itertools.product((0, 1), repeat=len(opt_idx)):
        present = dict(zip(opt_idx, pattern))
        # consecutive same-type optional slots: present ones first
        ok = True
        for i in range(len(argspec) - 1):
            if argspec[i] == argspec[i + 1] and argspec[i] in '*[' and \
                    not present[i] and present[i + 1]:
                ok = False
        if not ok:
            continue
        for ws in ('', ' '):
            s = ''
            prev_absent = []
            for i, c in enumerate(argspec):
                if c == '*':
                    piece = '*' if present[i] else ''
                elif c == '[':
                    piece = '[o%d]' % i if present[i] else ''
                else:
                    piece = '{m%d}' % i
                if piece:
                    s += ws + piece
            outs.append((pattern, ws, s))
    return outs


def check_spellings(argspec, res, env=False, math=False):
    from pylatexenc.macrospec import LatexContextDb
    from pylatexenc.latexwalker import LatexWalker
    from pylatexenc.latexnodes.parsers import LatexGeneralNodesParser
    name = 'zzenv' if env else 'zzmac'
    results = {}
    for label, mk in spellings(name, argspec, env, math):
        try:
            spec = mk()
        except Exception as e:
            res.case()
            res.fail('c16:spelling-rejected:%s' % label,
                     'building the spec with argspec %r through %s raised %s'
                     % (argspec, label, exc_detail(e)), {'what': 'spelling', 'argspec': argspec,
                                                         'env': env})
            continue
        db = LatexContextDb()
        db.add_context_category('c', macros=[] if env else [spec],
                                environments=[spec] if env else [])
        from pylatexenc.macrospec import MacroSpec, EnvironmentSpec
        db.set_unknown_macro_spec(MacroSpec(''))
        db.set_unknown_environment_spec(EnvironmentSpec(''))
        calls = [(p_, w_, c_, x_) for p_, w_, c_ in call_strings(argspec)
                 for x_ in (SUFFIXES_ENV if env else SUFFIXES)]
        if argspec.endswith('{') and not env:
            # a math delimiter where the last mandatory argument is expected: every spelling fails
            last = '{m%d}' % (len(argspec) - 1)
            calls += [(p_ + ('missing',), w_, c_[:-len(last)], x_) for p_, w_, c_ in call_strings(argspec)
                      if c_.endswith(last) for x_ in MISSING_ARG_TAILS]
        for pattern0, ws, call, sfx in calls:
            # what follows a complete call: another group, end of input, a blank, a letter, a
            # paragraph break, the closing brace of an enclosing group
            pattern = pattern0 + (sfx,)
            if env:
                src = '\\begin{%s}%s%s\\end{%s} tail' % (name, call, sfx, name)
            elif sfx == '}':
                src = '{\\%s%s}tail' % (name, call)
            else:
                src = '\\%s%s%s' % (name, call, sfx)
            res.case()

            def run():
                w = LatexWalker(src, latex_context=db, tolerant_parsing=False)
                nl, _ = w.parse_content(LatexGeneralNodesParser())
                node = nl[0]
                if sfx == '}' and not env:
                    nl = node.nodelist
                    node = nl[0]
                d = norm(dump(node, state=False))
                argd = d.get('args') or {}
                views = None
                if not env and hasattr(node, 'nodeoptarg') and hasattr(node, 'nodeargs'):
                    views = [norm(dump(node.nodeoptarg, state=False)),
                             [norm(dump(a, state=False)) for a in (node.nodeargs or [])]]
                modes = None
                if env:
                    # recorded math mode of the arguments and of the body
                    from ..treedump import walk as _walk
                    modes = [[bool(x.parsing_state.in_math_mode) for a in
                              (node.nodeargd.argnlist if node.nodeargd is not None else [])
                              if a is not None for x in _walk(a) if kind(x) != 'list'],
                             [bool(x.parsing_state.in_math_mode) for x in _walk(node.nodelist)
                              if kind(x) != 'list']]
                return {'pos': node.pos, 'pos_end': node.pos_end, 'modes': modes,
                        'argnlist': argd.get('argnlist'), 'views': views,
                        'rest': [norm(dump(x, state=False)) for x in nl.nodelist[1:]]}
            results[(label, pattern, ws)] = (attempt(run), src)
    # legacy views follow the documented rule (ParsedArguments.legacy_nodeoptarg_nodeargs):
    # first (non-star) argument optional and all remaining ones mandatory -> (optarg, rest);
    # no star and any other shape -> (None, all arguments)
    if not env:
        k = len(argspec) - len(argspec.lstrip('*'))
        core = argspec[k:]
        for (label, pattern, ws), (r, src) in sorted(results.items()):
            if r[0] != 'ok' or r[1]['views'] is None or r[1]['argnlist'] is None:
                continue
            argn = r[1]['argnlist']
            if len(argn) != len(argspec):
                continue        # reported by the comparison below
            want = None
            if core[:1] == '[' and all(c == '{' for c in core[1:]):
                want = [argn[k], argn[k + 1:]]
            elif k == 0:
                want = [None, argn]
            if want is not None and r[1]['views'] != want:
                res.fail('c16:legacy-views:%s' % ('optarg-first' if core[:1] == '[' else 'other'),
                         'argspec %r, call %r (%s): (nodeoptarg, nodeargs) = %s, documented rule '
                         'gives %s' % (argspec, src, label, str(r[1]['views'])[:200],
                                       str(want)[:200]),
                         {'what': 'spelling', 'argspec': argspec, 'env': env, 'math': math})
    # compare every spelling with the new arguments_spec_list spelling
    for (label, pattern, ws), (r, src) in sorted(results.items()):
        base = results.get(('new:arguments_spec_list', pattern, ws))
        if base is None or label == 'new:arguments_spec_list':
            continue
        case = {'what': 'spelling', 'argspec': argspec, 'env': env, 'math': math}
        if r[0] == 'exc':
            res.fail('c16:spelling-raises:%s' % label, '%r on %r: %s' % (label, src, r), case)
        elif r[0] == 'parse-error' and base[0][0] == 'parse-error':
            pass        # both fail: parity holds whatever the two error kinds are
        elif r != base[0]:
            what = 'failure-parity' if r[0] != base[0][0] else 'nodes'
            if r[0] == 'ok' and base[0][0] == 'ok':
                for fld in ('argnlist', 'pos', 'pos_end', 'views', 'rest', 'modes'):
                    if r[1][fld] != base[0][1][fld]:
                        what = fld
                        break
            res.fail('c16:spelling-differs:%s:%s%s' % (label, what, ':after-space' if ws else ''),
                     'argspec %r, call %r: %s gives %s, arguments_spec_list gives %s'
                     % (argspec, src, label, str(r)[:250], str(base[0])[:250]), case)
    res.label('spellings:%s' % (('env-is_math_mode' if math else 'env') if env else 'macro'),
              {'what': 'spelling', 'argspec': argspec, 'env': env, 'math': math})
    if argspec:
        res.nontriv_distinct(len(results))


def check_args_math_mode(res):
    """MacroStandardArgsParser(argspec, args_math_mode=[..]) -- per-argument math / text mode, the
    pylatexenc-2 spelling -- against argument specifications carrying the corresponding
    enter / leave-math-mode parsing-state deltas"""
    from pylatexenc.macrospec import LatexContextDb, MacroSpec, MacroStandardArgsParser
    from pylatexenc.latexnodes import (LatexArgumentSpec, ParsingStateDeltaEnterMathMode,
                                       ParsingStateDeltaLeaveMathMode)
    from pylatexenc.latexwalker import LatexWalker
    from ..treedump import walk as _walk

    def delta(v):
        return None if v is None else (ParsingStateDeltaEnterMathMode() if v
                                       else ParsingStateDeltaLeaveMathMode())

    def run(spec, src):
        db = LatexContextDb()
        db.add_context_category('c', macros=[spec])
        db.set_unknown_macro_spec(MacroSpec(''))
        w = LatexWalker(src, latex_context=db, tolerant_parsing=False)
        nl, _, _ = w.get_latex_nodes()
        return [[n.latex_verbatim(), n.pos, bool(n.parsing_state.in_math_mode)]
                for n in _walk(nl) if kind(n) in ('chars', 'group', 'macro', 'math')]
    for argspec in [''.join(t) for l in (1, 2, 3) for t in itertools.product('[{', repeat=l)]:
        for amm in itertools.product((True, False, None), repeat=len(argspec)):
            for pattern, ws, call in call_strings(argspec):
                for host in ('%s z', '$%s z$', '{%s}', '\\zzm{x}%s'):
                    src = host % ('\\zzm' + call)
                    res.case()
                    case = {'what': 'args_math_mode', 'argspec': argspec, 'arg': list(amm),
                            's': src}
                    a = attempt(lambda: run(MacroSpec('zzm', args_parser=MacroStandardArgsParser(
                        argspec, args_math_mode=list(amm))), src))
                    b = attempt(lambda: run(MacroSpec('zzm', [LatexArgumentSpec(
                        c, parsing_state_delta=delta(v)) for c, v in zip(argspec, amm)]), src))
                    if a[0] == 'exc':
                        res.fail('exc:%s@legacy:args_math_mode' % a[1], str(a), case)
                    elif b[0] != 'exc' and a != b:
                        res.fail('c16:differs:args_math_mode', '%r args_math_mode=%r on %r: legacy %s, '
                                 'argument specs with mode deltas %s' % (argspec, amm, src,
                                                                         str(a)[:200], str(b)[:200]),
                                 case)
                    if any(v is not None for v in amm):
                        res.nontriv_distinct()
    res.label('args_math_mode')


LEGACY_STATE_DOCS = ['\\begin{zzenv}{a}x^2 \\textbf{b}\\end{zzenv} y $z$',
                     '\\begin{zzenv}{a}\\end{zzenv}', 'p \\begin{zzenv}{a}{q}$\\end{zzenv}',
                     'a \\zzsw b {c} \\textbf{d}', '{\\zzsw x} y', '\\zzsw']


def check_legacy_states(res):
    """a pylatexenc-2 style arguments parser may return a fourth element naming the parsing state
    of what follows ('new_parsing_state') or of the environment body ('inner_parsing_state');
    the pylatexenc-3 equivalents are the parsing-state deltas of the specification.  Same trees,
    including the math-mode flag of every node."""
    from pylatexenc.macrospec import (MacroSpec, EnvironmentSpec, MacroStandardArgsParser,
                                      LatexContextDb)
    from pylatexenc.latexnodes import (ParsingStateDeltaEnterMathMode)
    from pylatexenc.latexwalker import LatexWalker
    from pylatexenc.latexnodes.parsers import LatexGeneralNodesParser

    class InnerMath(MacroStandardArgsParser):
        def parse_args(self, w, pos, parsing_state=None):
            r = MacroStandardArgsParser.parse_args(self, w, pos, parsing_state=parsing_state)
            return r[0], r[1], r[2], {
                'inner_parsing_state': parsing_state.sub_context(in_math_mode=True)}

    class AfterMath(MacroStandardArgsParser):
        def parse_args(self, w, pos, parsing_state=None):
            r = MacroStandardArgsParser.parse_args(self, w, pos, parsing_state=parsing_state)
            return r[0], r[1], r[2], {
                'new_parsing_state': parsing_state.sub_context(in_math_mode=True)}

    def db(legacy):
        d = LatexContextDb()
        if legacy:
            d.add_context_category('x', environments=[
                EnvironmentSpec('zzenv', args_parser=InnerMath('{'))],
                macros=[MacroSpec('zzsw', args_parser=AfterMath('')), MacroSpec('textbf', '{')])
        else:
            d.add_context_category('x', environments=[
                EnvironmentSpec('zzenv', '{', is_math_mode=True)],
                macros=[MacroSpec('zzsw', '', make_after_parsing_state_delta=lambda parsed_node,
                                  **kw: ParsingStateDeltaEnterMathMode()),
                        MacroSpec('textbf', '{')])
        d.set_unknown_macro_spec(MacroSpec(''))
        return d

    def modes(src, legacy):
        from ..treedump import walk
        w = LatexWalker(src, latex_context=db(legacy), tolerant_parsing=False)
        nl, _ = w.parse_content(LatexGeneralNodesParser())
        return [(kind(n), n.pos, n.pos_end, bool(n.parsing_state.in_math_mode))
                for n in walk(nl) if kind(n) != 'list']
    for src in LEGACY_STATE_DOCS:
        res.case()
        case = {'what': 'legacy-states', 'src': src}
        a, b = attempt(lambda: modes(src, True)), attempt(lambda: modes(src, False))
        if a != b:
            which = 'inner_parsing_state' if 'zzenv' in src else 'new_parsing_state'
            res.fail('c16:legacy-args-parser-state-ignored:' + which,
                     'on %r the legacy arguments parser (4-tuple result) gives %s, the '
                     'equivalent specification %s' % (src, str(a)[:300], str(b)[:300]), case)
        res.nontriv(src)
    res.label('legacy-4-tuple-states')


def plan(tier, seed):
    L = 3 if tier == 'quick' else 4
    shards = [('soups', L, k) for k in range(NSHARDS)]
    shards += [('spell', k) for k in range(NSHARDS)]
    shards += [('legacy-states',)]
    return {'shards': shards, 'bounds': {'soup_len': L, 'alphabet': len(ALPHA),
                                         'argspecs': len(ARGSPECS)},
            'required_classes': ['spellings:macro', 'spellings:env', 'spellings:env-is_math_mode',
                                 'both-succeed:get_latex_expression',
                                 'both-succeed:get_latex_nodes(stop_upon_closing_brace=})',
                                 'both-succeed:get_latex_nodes(stop_upon_end_environment)',
                                 'both-succeed:get_latex_nodes(stop_upon_closing_mathmode=$)',
                                 'both-succeed:get_latex_environment',
                                 'both-succeed:get_latex_braced_group([)',
                                 'legacy-4-tuple-states', 'args_math_mode', 'same-walker-history', 'tolerant-walkers',
                                 'both-succeed:expression(parsing_state=)',
                                 'both-succeed:braced_group(parsing_state=)']}


def run_shard(shard, res):
    if shard[0] == 'legacy-states':
        check_legacy_states(res)
        check_args_math_mode(res)
        return
    if shard[0] == 'soups':
        _, L, k = shard
        for toks in soups.enum_tokens(ALPHA, L, k, NSHARDS):
            s = ''.join(toks)
            positions = sorted(set([0] + list(itertools.accumulate(len(t) for t in toks))))
            import zlib
            # a third of the strings is run with tolerant walkers on both sides
            _MODE['tolerant'] = zlib.crc32(s.encode('utf-8')) % 3 == 0
            if _MODE['tolerant']:
                res.label('tolerant-walkers')
            for pos in positions[:-1] if len(positions) > 1 else positions:
                check_nodes_variants(s, pos, res)
                check_single_variants(s, pos, res)
            if zlib.crc32(s.encode('utf-8')) % 3 == 1:
                check_same_walker(s, positions[:-1] if len(positions) > 1 else positions, res)
            _MODE['tolerant'] = False
            if any(t in ('{', '[', '$', '\\textbf', '\\begin{x}', '\\sqrt') for t in toks):
                res.nontriv_distinct()
        res.exhaustive = True
    else:
        _, k = shard
        for i, a in enumerate(ARGSPECS):
            if i % NSHARDS == k:
                check_spellings(a, res, env=False)
                check_spellings(a, res, env=True)
                if len(a) <= 3:
                    check_spellings(a, res, env=True, math=True)
        res.exhaustive = True


def check_case(case, res):
    w = case['what']
    if w == 'args_math_mode':
        check_args_math_mode(res)
    elif w == 'legacy-states':
        check_legacy_states(res)
    elif w == 'spelling':
        check_spellings(case['argspec'], res, env=case.get('env', False),
                        math=case.get('math', False))
    elif w in ('nodes', 'single') or True:
        import zlib
        _MODE['tolerant'] = zlib.crc32(case['s'].encode('utf-8')) % 3 == 0
        try:
            if w == 'same-walker':
                check_same_walker(case['s'], list(range(0, case['pos'] + 1)), res)
            elif w == 'nodes':
                check_nodes_variants(case['s'], case['pos'], res)
            else:
                check_single_variants(case['s'], case['pos'], res)
        finally:
            _MODE['tolerant'] = False


def minimise(case, key):
    return case
