"""C11 -- tokenizer is lossless, always advances, peeking has no effect, rewindable."""
from .. import soups, contexts
from ..alphabets import SIG, SIG_SMALL, EVERYTYPE_TOKENS
from ..engine import exc_key, exc_detail, ddmin, hyp_run, Result

ID = 'C11'
LEVEL = 'exploration'
RULE = ('bounded-exhaustive token soups over the 46-token LaTeX-significant alphabet (and the '
        'reduced alphabet + every-type tokens) and Hypothesis random strings up to 60 tokens, each '
        'under every parsing-state configuration of a catalogue (math mode x delimiter, each '
        'enable_* flag off, extra group delimiters, paragraph handling off, no / default / custom '
        'context database, alternative escape and comment characters, forbidden characters; '
        'thorough adds pairwise combinations) in strict and tolerant reading. Oracle drives only '
        'the public reader API: peek leaves cur_pos unchanged and equals the following next; '
        'next moves forward; reads <= len(input); move_to_token + next reproduces token and '
        'position; pre_space + source slice of all tokens + final_space == input. '
        'Reads are repeated with a peek under another parsing state before each read; the '
        'token-list reader is driven through the same protocol. '
        'Non-trivial = string yields >= 2 tokens of different kinds; distinct by '
        '(string, configuration), each enumerated once.')
ASSUMPTIONS = [
    'a LatexWalkerTokenParseError may end a strict reading; none may escape a tolerant one',
    'token equality is compared on (tok, arg or specials chars, pos, pos_end, pre_space, '
    'post_space)',
]
NSHARDS = 16
from ..alphabets import LEGACY       # noqa: E402
# whitespace-like characters (\r, form feed, NBSP, U+2028, several newlines in a row) and unusual
# \begin / \end spellings
ALPHAS = {'SIG': SIG, 'EVERY': SIG_SMALL + EVERYTYPE_TOKENS, 'SMALL': SIG_SMALL, 'LEGACY': LEGACY}

BASE_CONFIGS = [
    {},
    {'in_math_mode': True, 'math_mode_delimiter': '$'},
    {'in_math_mode': True, 'math_mode_delimiter': '$$'},
    {'in_math_mode': True, 'math_mode_delimiter': '\\('},
    {'in_math_mode': True, 'math_mode_delimiter': '\\['},
    {'in_math_mode': True},
    {'enable_macros': False},
    {'enable_environments': False},
    {'enable_comments': False},
    {'enable_groups': False},
    {'enable_specials': False},
    {'enable_math': False},
    {'enable_double_newline_paragraphs': False},
    {'latex_group_delimiters': [['{', '}'], ['[', ']']]},
    {'latex_group_delimiters': [['[', ']']]},
    {'ctx': None},
    {'ctx': None, 'enable_double_newline_paragraphs': False},
    {'ctx': 'every'},
    {'ctx': 'every-unkspecials'},
    {'macro_escape_char': '|'},
    {'comment_start': '*'},
    {'forbidden_characters': '%a$'},
    {'latex_inline_math_delimiters': [['$', '$']], 'latex_display_math_delimiters': [['\\[', '\\]']]},
    {'in_math_mode': True, 'math_mode_delimiter': '$', 'enable_groups': False},
    {'macro_alpha_chars': 'abc'},
]


def configs(tier):
    out = list(BASE_CONFIGS)
    if tier == 'thorough':
        singles = [c for c in BASE_CONFIGS[1:] if len(c) == 1 or 'in_math_mode' in c]
        for i, a in enumerate(singles):
            for b in singles[i + 1:]:
                if set(a) & set(b):
                    continue
                c = dict(a)
                c.update(b)
                out.append(c)
    return out


def plan(tier, seed):
    cfgs = configs(tier)
    if tier == 'quick':
        L, nrand = 3, 1600
        shards = [('soup', 'SIG', L, k, None) for k in range(NSHARDS)]
        shards += [('soup', 'EVERY', 2, k, None) for k in range(NSHARDS)]
        shards += [('soup', 'LEGACY', 3, k, 'base') for k in range(NSHARDS)]
    else:
        L, nrand = 3, 32000
        shards = [('soup', 'SIG', L, k, None) for k in range(NSHARDS)]
        shards += [('soup', 'EVERY', 3, k, None) for k in range(NSHARDS)]
        shards += [('soup', 'LEGACY', 4, k, 'base') for k in range(NSHARDS)]
        shards += [('soup', 'SMALL', 4, k, 'base') for k in range(NSHARDS)]
    shards += [('rand', nrand // NSHARDS, seed * 1000 + k) for k in range(NSHARDS)]
    return {'shards': [s + (tier,) for s in shards],
            'bounds': {'soup_len': L, 'configurations': len(cfgs), 'random_strings': nrand,
                       'random_max_tokens': 60},
            'required_classes': ['tok:macro', 'tok:char', 'tok:comment', 'tok:brace_open',
                                 'tok:brace_close', 'tok:specials', 'tok:mathmode_inline',
                                 'tok:mathmode_display', 'tok:begin_environment',
                                 'tok:end_environment', 'token-list-reader', 'interference-pass']}


_CTX = {}
_PS = {}


def parsing_state(s, cfg):
    from pylatexenc.latexnodes import ParsingState
    kw = dict(cfg)
    ctxname = kw.pop('ctx', 'default')
    if ctxname is not None and ctxname not in _CTX:
        _CTX[ctxname] = contexts.build(ctxname)
    for k in ('latex_group_delimiters', 'latex_inline_math_delimiters',
              'latex_display_math_delimiters'):
        if k in kw:
            kw[k] = [tuple(p) for p in kw[k]]
    return ParsingState(s=s, latex_context=_CTX.get(ctxname) if ctxname else None, **kw)


def tokkey(t):
    arg = t.arg
    if t.tok == 'specials':
        arg = getattr(arg, 'specials_chars', repr(arg))
    return (t.tok, arg, t.pos, t.pos_end, t.pre_space, getattr(t, 'post_space', ''))


def check_string(s, cfg, tolerant, res, case):
    """Returns the list of token kinds read (None if the case ended in a failure)."""
    from pylatexenc.latexnodes import (LatexTokenReader, LatexWalkerEndOfStream,
                                       LatexWalkerTokenParseError)
    res.case()
    mode = 'tolerant' if tolerant else 'strict'
    try:
        ps = parsing_state(s, cfg)
        r = LatexTokenReader(s, tolerant_parsing=tolerant)
    except Exception as e:
        res.fail(exc_key(e), exc_detail(e), case)
        return None
    recon = ''
    kinds = []
    reads = 0
    while True:
        p0 = r.cur_pos()
        # character-level peeks and the convenience peek do not move either
        try:
            r.peek_chars(2, ps)
            r.peek_space_chars(ps)
        except LatexWalkerEndOfStream:
            pass
        except Exception as e:
            res.fail(exc_key(e), exc_detail(e), case)
            return None
        tn = '<raised>'
        try:
            tn = r.peek_token_or_none(ps)
        except LatexWalkerTokenParseError:
            pass
        except Exception as e:
            res.fail(exc_key(e), exc_detail(e), case)
            return None
        if r.cur_pos() != p0:
            res.fail('c11:peek-moves:%s:char-level-or-peek_token_or_none' % mode,
                     'peek_chars / peek_space_chars / peek_token_or_none moved the position '
                     'from %d to %d' % (p0, r.cur_pos()), case)
            return None
        try:
            t = r.peek_token(ps)
        except LatexWalkerEndOfStream as e:
            if tn is not None:
                res.fail('c11:peek_token_or_none-differs:%s' % mode,
                         'peek_token raises end of stream, peek_token_or_none gave %r' % (tn,), case)
                return None
            fs = getattr(e, 'final_space', '') or ''
            if recon + fs != s:
                res.fail('c11:lossless:%s' % mode,
                         'pre_space + slices + final_space = %r, input = %r' % (recon + fs, s),
                         case)
                return None
            break
        except LatexWalkerTokenParseError as e:
            # reading ends here with an error (the statement speaks about successful reads; in
            # tolerant mode the library normally hands out a recovery token instead)
            res.label('tolerant-token-error' if tolerant else 'strict-token-error', case)
            # the failed peek did not move, and a read fails the same way at the same place
            if r.cur_pos() != p0:
                res.fail('c11:peek-moves:strict:on-error', 'position %d -> %d after a peek that '
                         'raised' % (p0, r.cur_pos()), case)
                return None
            try:
                r.next_token(ps)
                res.fail('c11:peek-differs-from-next:strict:error', 'peek_token raised %s, '
                         'next_token returned a token' % exc_detail(e), case)
                return None
            except LatexWalkerTokenParseError as e2:
                if getattr(e2, 'pos', None) != getattr(e, 'pos', None):
                    res.fail('c11:peek-differs-from-next:strict:error-pos', 'peek error at %r, '
                             'next error at %r' % (getattr(e, 'pos', None),
                                                   getattr(e2, 'pos', None)), case)
                    return None
            except Exception as e2:
                res.fail(exc_key(e2), exc_detail(e2), case)
                return None
            return kinds
        except Exception as e:
            res.fail(exc_key(e), exc_detail(e), case)
            return None
        if isinstance(tn, str) or tn is None or tokkey(tn) != tokkey(t):
            res.fail('c11:peek_token_or_none-differs:%s' % mode, 'peek_token %r, '
                     'peek_token_or_none %r' % (tokkey(t), tn if (tn is None or isinstance(tn, str))
                                                else tokkey(tn)), case)
            return None
        if r.cur_pos() != p0:
            res.fail('c11:peek-moves:%s:%s' % (mode, t.tok),
                     'peek_token moved the position from %d to %d (token %r)'
                     % (p0, r.cur_pos(), tokkey(t)), case)
            return None
        try:
            t2 = r.next_token(ps)
        except Exception as e:
            res.fail('c11:next-raises-after-peek:' + type(e).__name__, exc_detail(e), case)
            return None
        reads += 1
        if tokkey(t2) != tokkey(t):
            res.fail('c11:peek-differs-from-next:%s' % mode,
                     'peek %r, next %r' % (tokkey(t), tokkey(t2)), case)
            return None
        p1 = r.cur_pos()
        if not (p1 > p0):
            res.fail('c11:no-advance:%s:%s' % (mode, t2.tok),
                     'next_token left the position at %d (was %d), token %r'
                     % (p1, p0, tokkey(t2)), case)
            return None
        if reads > len(s):
            res.fail('c11:too-many-reads:%s' % mode, '%d reads for %d characters' % (reads, len(s)),
                     case)
            return None
        if not (isinstance(t2.pos, int) and isinstance(t2.pos_end, int)
                and p0 <= t2.pos <= t2.pos_end <= len(s)):
            res.fail('c11:token-range:%s' % mode, 'token %r for cur_pos %d' % (tokkey(t2), p0), case)
            return None
        recon += t2.pre_space + s[t2.pos:t2.pos_end]
        if recon != s[:t2.pos_end]:
            res.fail('c11:lossless:%s:%s' % (mode, t2.tok),
                     'after token %r the pieces give %r, input prefix is %r'
                     % (tokkey(t2), recon, s[:t2.pos_end]), case)
            return None
        # rewind and read again
        try:
            r.move_to_token(t2)
            t3 = r.next_token(ps)
        except Exception as e:
            res.fail('c11:rewind-raises:' + type(e).__name__, exc_detail(e), case)
            return None
        if tokkey(t3) != tokkey(t2) or r.cur_pos() != p1:
            res.fail('c11:rewind-differs:%s:%s' % (mode, t2.tok),
                     'first read %r (pos after %d), after move_to_token %r (pos after %d)'
                     % (tokkey(t2), p1, tokkey(t3), r.cur_pos()), case)
            return None
        # going back to the token itself (not to the blanks before it), and past it without its
        # trailing blanks
        try:
            r.move_to_token(t2, rewind_pre_space=False)
            pa = r.cur_pos()
            t4 = r.next_token(ps)
            pb = r.cur_pos()
            r.move_past_token(t2, fastforward_post_space=False)
            pc = r.cur_pos()
            r.move_past_token(t2)
            pd = r.cur_pos()
        except Exception as e:
            res.fail('c11:rewind-raises:' + type(e).__name__, exc_detail(e), case)
            return None
        post = getattr(t2, 'post_space', '') or ''
        if pa != t2.pos or tokkey(t4)[:4] + tokkey(t4)[5:] != tokkey(t2)[:4] + tokkey(t2)[5:] \
                or t4.pre_space != '' or pb != p1:
            res.fail('c11:rewind-differs:%s:%s:without-pre-space' % (mode, t2.tok),
                     'token %r; move_to_token(rewind_pre_space=False) put the position at %d; '
                     're-read %r, position after %d (first time %d)'
                     % (tokkey(t2), pa, tokkey(t4), pb, p1), case)
            return None
        if pc != t2.pos_end - len(post) or pd != p1:
            res.fail('c11:move_past_token:%s:%s' % (mode, t2.tok),
                     'token %r: position after move_past_token(fastforward_post_space=False) = %d '
                     '(expected %d), after move_past_token() = %d (expected %d)'
                     % (tokkey(t2), pc, t2.pos_end - len(post), pd, p1), case)
            return None
        kinds.append(t2.tok)
        if t2.tok in ('char', 'specials') and s[t2.pos:t2.pos_end].count('\n') >= 2:
            res.label('paragraph-token', case)
    return kinds


def read_all(s, cfg, tolerant, interfere):
    """token keys from reading with next_token only; with interfere=True every read is
    preceded by a peek under a different, temporary parsing state and uses a freshly built
    (equal) parsing state object"""
    from pylatexenc.latexnodes import (LatexTokenReader, LatexWalkerEndOfStream,
                                       LatexWalkerTokenParseError)
    r = LatexTokenReader(s, tolerant_parsing=tolerant)
    ps = parsing_state(s, cfg)
    out = []
    for _ in range(len(s) + 2):
        try:
            if interfere:
                other = dict(cfg)
                which = len(out) % 6
                if which == 0:
                    if other.get('in_math_mode'):
                        other['in_math_mode'] = False
                        other.pop('math_mode_delimiter', None)
                    else:
                        other['in_math_mode'] = True
                        other['math_mode_delimiter'] = '$'
                elif which == 1:
                    other['ctx'] = None if other.get('ctx', 'default') is not None else 'default'
                elif which == 2:
                    other['enable_specials'] = not other.get('enable_specials', True)
                elif which == 3:
                    other['latex_group_delimiters'] = [['[', ']']] \
                        if other.get('latex_group_delimiters') != [['[', ']']] else [['{', '}']]
                elif which == 4:
                    other['enable_double_newline_paragraphs'] = \
                        not other.get('enable_double_newline_paragraphs', True)
                else:
                    other['enable_macros'] = not other.get('enable_macros', True)
                try:
                    r.peek_token(parsing_state(s, other))
                except (LatexWalkerEndOfStream, LatexWalkerTokenParseError):
                    pass
                ps = parsing_state(s, cfg)
            t = r.next_token(ps)
        except LatexWalkerEndOfStream as e:
            out.append(('EOS', getattr(e, 'final_space', '')))
            break
        except LatexWalkerTokenParseError as e:
            out.append(('TOKERR', getattr(e, 'pos', None)))
            break
        out.append(tokkey(t))
    return out


def check_interference(s, cfg, res, case):
    res.case()
    for tolerant in (False, True):
        try:
            a = read_all(s, cfg, tolerant, False)
            b = read_all(s, cfg, tolerant, True)
        except Exception as e:
            res.fail(exc_key(e), exc_detail(e), dict(case, interference=True, tolerant=tolerant))
            return
        if a != b:
            res.fail('c11:peek-with-other-state-affects-reads:%s' % ('tolerant' if tolerant
                                                                       else 'strict'),
                     'reading %r: plain reads give %r; with a peek under another parsing state '
                     'before each read %r' % (s, a, b), dict(case, interference=True))
            return
    res.label('interference-pass')


def check_token_list_reader(s, cfg, res, case):
    """LatexTokenListTokenReader over the tokens of the string: the same reading protocol (peek
    does not move, next = peek + move past, move_to_token / move_past_token address a token)"""
    from pylatexenc.latexnodes import (LatexTokenReader, LatexTokenListTokenReader,
                                       LatexWalkerEndOfStream, LatexWalkerTokenParseError)
    ps = parsing_state(s, cfg)
    r = LatexTokenReader(s, tolerant_parsing=True)
    toks = []
    try:
        for _ in range(len(s) + 2):
            toks.append(r.next_token(ps))
    except (LatexWalkerEndOfStream, LatexWalkerTokenParseError):
        pass
    if not toks:
        return
    res.case()
    case = dict(case, token_list=True)
    try:
        lr = LatexTokenListTokenReader(list(toks))
        for i, t in enumerate(toks):
            if lr.cur_pos() != t.pos:
                res.fail('c11:token-list-reader:cur_pos', '%r: before token %d cur_pos() = %r, token '
                         'starts at %r' % (s, i, lr.cur_pos(), t.pos), case)
                return
            p1, p2 = lr.peek_token(ps), lr.peek_token(ps)
            n = lr.next_token(ps)
            if p1 is not t or p2 is not t or n is not t:
                res.fail('c11:token-list-reader:sequence', '%r: token %d: peeks / next do not return '
                         'the list item' % (s, i), case)
                return
        for fn in (lr.peek_token, lr.next_token):
            try:
                fn(ps)
                res.fail('c11:token-list-reader:no-end-of-stream', '%r' % s, case)
                return
            except LatexWalkerEndOfStream:
                pass
        if lr.final_pos() != toks[-1].pos_end:
            res.fail('c11:token-list-reader:final_pos', '%r: %r' % (s, lr.final_pos()), case)
        for i, t in enumerate(toks):
            lr.move_to_token(t)
            if lr.next_token(ps) is not t:
                res.fail('c11:token-list-reader:move_to_token', '%r token %d' % (s, i), case)
                return
            lr.move_past_token(t)
            if i + 1 < len(toks):
                if lr.peek_token(ps) is not toks[i + 1]:
                    res.fail('c11:token-list-reader:move_past_token', '%r token %d' % (s, i), case)
                    return
            else:
                try:
                    lr.peek_token(ps)
                    res.fail('c11:token-list-reader:move_past_last', '%r' % s, case)
                    return
                except LatexWalkerEndOfStream:
                    pass
    except Exception as e:
        res.fail(exc_key(e), exc_detail(e) + ' (token list reader on %r)' % s, case)
        return
    res.label('token-list-reader')


def check_both(s, cfg, res, case, count=True):
    check_interference(s, cfg, res, case)
    if cfg is BASE_CONFIGS[0] or cfg == BASE_CONFIGS[0]:
        check_token_list_reader(s, cfg, res, case)
    ks = None
    for tolerant in (False, True):
        k = check_string(s, cfg, tolerant, res, dict(case, tolerant=tolerant))
        if tolerant:
            ks = k
    if ks:
        for k in set(ks):
            res.label('tok:' + k, case)
        if count and len(set(ks)) >= 2:
            res.nontriv_distinct()


def run_shard(shard, res):
    kind = shard[0]
    tier = shard[-1]
    cfgs = configs(tier)
    if kind == 'soup':
        _, alpha, L, k, which, _ = shard
        use = cfgs if which is None else BASE_CONFIGS[:6]
        import zlib
        rotate = (tier == 'quick' and L >= 3 and which is None)
        for toks in soups.enum_tokens(ALPHAS[alpha], L, k, NSHARDS):
            s = ''.join(toks)
            h = zlib.crc32(s.encode('utf-8'))
            for ci, cfg in enumerate(use):
                # quick tier, longest strings: the six default / math configurations always, of
                # the others a checksum-chosen third
                if rotate and ci >= 6 and (ci + h) % 3:
                    continue
                toks2 = list(toks)
                if 'macro_escape_char' in cfg or 'comment_start' in cfg:
                    # the same string written with this configuration's escape / comment char
                    toks2 = [t.replace('\\', cfg.get('macro_escape_char', '\\'))
                             .replace('%', cfg.get('comment_start', '%')) for t in toks]
                    check_both(''.join(toks2), cfg, res, {'tokens': toks2, 'cfg': cfg})
                check_both(s, cfg, res, {'tokens': list(toks), 'cfg': cfg})
        res.exhaustive = True
    else:
        _, n, seed, _ = shard
        from hypothesis import strategies as st
        strat = st.tuples(soups.soup_strategy(SIG + ['|', '*', '\t', 'c', '\r', '\r\n', '\x0c', '\u2028'], 3, 60),
                          st.sampled_from(cfgs))

        def one(x):
            toks, cfg = x
            r0 = res.distinct_nontrivial
            check_both(''.join(toks), cfg, res, {'tokens': list(toks), 'cfg': cfg}, count=False)
            res.nontriv((toks, cfg))
        hyp_run(strat, one, n, seed)


def check_case(case, res):
    s = ''.join(case['tokens'])
    if case.get('token_list'):
        check_token_list_reader(s, case['cfg'], res, case)
    elif case.get('interference'):
        check_interference(s, case['cfg'], res, case)
    elif 'tolerant' in case:
        check_string(s, case['cfg'], case['tolerant'], res, case)
    else:
        check_both(s, case['cfg'], res, case)


def minimise(case, key):
    def pred(t):
        r = Result()
        check_case(dict(case, tokens=list(t)), r)
        return key in r.failures
    return dict(case, tokens=ddmin(case['tokens'], pred))
