"""C08 -- encoding to LaTeX and converting back to text returns the original string."""
import itertools
import os
import unicodedata

from ..engine import exc_key, exc_detail, ddmin, Result, hyp_run, HarnessError

ID = 'C08'
LEVEL = 'exploration'
RULE = ('alphabet A = pinned list of invertible built-in characters (pv/data/c08_invertible.txt) '
        'plus printable ASCII, space, single newline and exactly-double newline; the ligature '
        'pairs -- --- `` \'\' !` ?` are never produced; generated strings are NFC-stable. '
        'First every pinned character singly, then one representative pair for every ordered '
        'pair of neighbour classes, then Hypothesis strings (<= 12 characters); thorough adds '
        'all ordered pairs of A. Each under the 4 brace-protection schemes x {default, strict} '
        'latex2text whitespace policy. Oracle: latex_to_text(unicode_to_latex(s), '
        'tolerant_parsing=False) == NFC(s). One shard runs after a caller customised its own copies of the default databases. '
        'Non-trivial = string with >= 2 characters of which '
        '>= 1 non-ASCII or LaTeX-active; distinct by (string, configuration).')
ASSUMPTIONS = [
    'the invertible alphabet is pinned in a committed data file (277 excluded characters are '
    'listed with their class in pv/data/c08_excluded.txt); a character can only leave it by an '
    'edit of that file',
    'blanks and newlines may stand anywhere (also at the ends and in runs: the statement lists '
    'spaces and newlines as ordinary members of the alphabet) except that a paragraph break is '
    'written as exactly two newlines (longer ones and blank lines holding blanks are one and the '
    'same paragraph break to LaTeX and to latex2text); no tab or other control character',
]
NSHARDS = 16
PROTS = ['braces', 'braces-all', 'braces-almost-all', 'braces-after-macro']
SPACES = [False, True]
CONFIGS = [(p, s) for p in PROTS for s in SPACES]
DATA = os.path.join(os.path.dirname(os.path.dirname(__file__)), 'data')
LIGATURES = ['--', '``', "''", '!`', '?`']
ACTIVE = set('\\{}$%&#_^~')

_ENC, _L2T = {}, {}


def enc(prot):
    from pylatexenc.latexencode import UnicodeToLatexEncoder
    if prot not in _ENC:
        _ENC[prot] = UnicodeToLatexEncoder(replacement_latex_protection=prot,
                                           unknown_char_policy='keep', unknown_char_warning=False)
    return _ENC[prot]


def l2t(strict):
    from pylatexenc.latex2text import LatexNodes2Text
    if strict not in _L2T:
        _L2T[strict] = LatexNodes2Text(strict_latex_spaces=strict)
    return _L2T[strict]


def roundtrip(s, cfg):
    prot, strict = cfg
    latex = enc(prot).unicode_to_latex(s)
    return latex, l2t(strict).latex_to_text(latex, tolerant_parsing=False)


def table():
    from pylatexenc.latexencode import get_builtin_uni2latex_dict
    return dict(get_builtin_uni2latex_dict())


def classify_all():
    """used by tools/gen_c08_alphabet.py"""
    t = table()
    cands = sorted(set(t) | set(range(32, 127)))
    inv, exc = [], []
    for o in cands:
        c = chr(o)
        if unicodedata.normalize('NFC', c) != c:
            exc.append((o, 'not-nfc-stable', t.get(o, c), ''))
            continue
        bad = None
        for cfg in CONFIGS:
            try:
                latex, back = roundtrip(c, cfg)
            except Exception as e:
                bad = (latex if 'latex' in dir() else '?', 'raises %s' % type(e).__name__)
                break
            if back != c:
                bad = (latex, back)
                break
        if bad is None:
            inv.append(o)
        else:
            latex, back = bad
            if back.startswith('raises'):
                cls = 'not-parseable-back'
            elif len(back) == 0:
                cls = 'no-symbol-in-latex2text'
            elif len(back) == 1:
                cls = 'many-to-one-approximation'
            else:
                cls = 'expansion-or-no-symbol'
            exc.append((o, cls, latex, back))
    return inv, exc


_A = []


def alphabet():
    if not _A:
        path = os.path.join(DATA, 'c08_invertible.txt')
        if not os.path.exists(path):
            raise HarnessError('missing pinned alphabet %s (run tools/gen_c08_alphabet.py)' % path)
        for line in open(path, encoding='utf-8'):
            line = line.strip()
            if line and not line.startswith('#'):
                _A.append(chr(int(line, 16)))
    return _A


def string_alphabet():
    """characters used inside longer strings: pinned characters that are not combining marks
    (blank and newline are added by the generators themselves; NBSP, en space etc. stay in)"""
    return [c for c in alphabet() if not unicodedata.category(c).startswith('M')
            and c not in ' \n']


_RX_BLANK_LINE_WITH_BLANKS = None


def valid_domain(s, nfc_only=True):
    """strings the statement covers: no ASCII ligature pair; paragraph breaks only as exactly two
    newlines (LaTeX and latex2text normalise longer ones and blank lines holding blanks); NFC
    unless the caller compares with the NFC form itself"""
    global _RX_BLANK_LINE_WITH_BLANKS
    import re
    if _RX_BLANK_LINE_WITH_BLANKS is None:
        _RX_BLANK_LINE_WITH_BLANKS = re.compile(r'\s+')
    for m in _RX_BLANK_LINE_WITH_BLANKS.finditer(s):
        run = m.group()
        if run.count('\n') >= 2 and run[run.find('\n'):run.rfind('\n') + 1] != '\n\n':
            return False        # a paragraph break other than exactly two newlines
    if any(l in s for l in LIGATURES):
        return False
    if nfc_only and unicodedata.normalize('NFC', s) != s:
        return False
    return True


def nclass_of_encoding(latex):
    import re
    if re.search(r'\\[A-Za-z]+$', latex):
        return 'ends-control-word'
    if re.search(r'\\[^A-Za-z]$', latex):
        return 'ends-control-symbol'
    if latex.endswith('}'):
        return 'ends-brace'
    if latex.endswith(' '):
        return 'ends-space'
    return 'ends-char'


def nclass_of_next(c):
    if c.isalpha() and c.isascii():
        return 'letter'
    if c.isdigit():
        return 'digit'
    if c == ' ':
        return 'space'
    if c == '\n':
        return 'newline'
    if c in ACTIVE:
        return 'active'
    if c in '[]':
        return 'bracket'
    if c == '*':
        return 'star'
    if not c.isascii():
        return 'non-ascii'
    return 'punct'


def check(s, cfg, res, case, single=False):
    res.case()
    want = unicodedata.normalize('NFC', s)
    try:
        latex, back = roundtrip(s, cfg)
    except Exception as e:
        res.fail(exc_key(e), exc_detail(e) + ' for %r' % s, case)
        return
    if back != want:
        if single:
            key = 'c08:single:U+%04X' % ord(s)
        else:
            # discriminate by the neighbour classes at the first difference
            i = 0
            while i < min(len(back), len(want)) and back[i] == want[i]:
                i += 1
            j = max(0, i - 1)
            left = want[j] if want else ''
            right = want[j + 1] if j + 1 < len(want) else ''
            lcls = nclass_of_encoding(enc('none').unicode_to_latex(left)) if left else 'start'
            rcls = nclass_of_next(right) if right else 'end'
            key = 'c08:roundtrip:%s>%s:%s' % (lcls, rcls, 'strict' if cfg[1] else 'default')
        res.fail(key, '%r -> %r -> %r (protection %s, strict spaces %r)'
                 % (s, latex, back, cfg[0], cfg[1]), case)


def plan(tier, seed):
    nrand = 20000 if tier == 'quick' else 320000
    shards = [('singles', k) for k in range(NSHARDS)]
    shards += [('classpairs', k) for k in range(NSHARDS)]
    shards += [('asciipairs', k) for k in range(NSHARDS)]
    shards += [('extras', k) for k in (0, 1, 3, 4)]
    shards += [('rand', nrand // NSHARDS, seed * 1000 + k) for k in range(NSHARDS)]
    if tier == 'thorough':
        shards += [('allpairs', k, 64) for k in range(64)]
    return {'shards': shards, 'bounds': {'alphabet': len(alphabet()), 'random_strings': nrand,
                                         'max_len': 12, 'configurations': len(CONFIGS),
                                         'all_pairs': tier == 'thorough'},
            'required_classes': ['single', 'class-pair', 'random', 'pair:ends-control-word>letter',
                                 'pair:ends-control-word>space', 'pair:ends-brace>letter',
                                 'pair:ends-control-symbol>letter', 'double-newline',
                                 'ascii-pairs', 'table-coverage-checked', 'decomposed-input',
                                 'edge-whitespace', 'after-private-customisation']}


def class_pairs():
    """one representative (left char, right char) per ordered pair of neighbour classes"""
    A = string_alphabet() + [' ', '\n']
    e = enc('none')      # neighbour class of the bare replacement text
    left = {}
    for c in A:
        if c.isspace():
            continue
        left.setdefault(nclass_of_encoding(e.unicode_to_latex(c)), []).append(c)
    right = {}
    for c in A:
        right.setdefault(nclass_of_next(c), []).append(c)
    out = []
    for lc, ls in sorted(left.items()):
        for rc, rs in sorted(right.items()):
            for i in range(3):
                out.append((lc, rc, ls[(i * 7) % len(ls)], rs[(i * 5) % len(rs)]))
    return out


def excluded_set():
    out = set()
    for line in open(os.path.join(DATA, 'c08_excluded.txt'), encoding='utf-8'):
        line = line.strip()
        if line and not line.startswith('#'):
            out.add(int(line.split()[0], 16))
    return out


def run_extras(k, res):
    """(0) built-in entries that are neither pinned as invertible nor on the documented exclusion
    list (a new encoding must round-trip); (1) decomposed forms of the pinned characters: the
    round trip returns the NFC string; (2) the module-level helpers give the class's output;
    (3) whitespace at the edges and in runs"""
    from pylatexenc import latexencode
    pinned = alphabet()
    if k == 0:
        known = set(ord(c) for c in pinned) | excluded_set()
        for o in sorted(set(table()) - known):
            c = chr(o)
            if unicodedata.normalize('NFC', c) != c:
                continue
            for cfg in CONFIGS:
                check(c, cfg, res, {'s': c, 'cfg': list(cfg), 'single': True}, single=True)
            res.label('unlisted-built-in-entry')
        res.label('table-coverage-checked')
    elif k == 1:
        for c in pinned:
            d = unicodedata.normalize('NFD', c)
            if d == c:
                continue
            for s in (d, 'a' + d + 'b', d + d):
                if not valid_domain(s, nfc_only=False):
                    continue
                for cfg in (CONFIGS[0], CONFIGS[3], CONFIGS[5]):
                    check(s, cfg, res, {'s': s, 'cfg': list(cfg)})
                res.nontriv_distinct()
            res.label('decomposed-input')
    elif k == 4:
        # a caller customises its *own* copies of the default databases the documented way
        # (get_default_latex_context_db() + add_context_category(prepend=True)) and uses them in a
        # private converter; round trips through default converters created afterwards are as before
        from pylatexenc import latex2text, latexwalker, macrospec
        tdb = latex2text.get_default_latex_context_db()
        tdb.add_context_category('pv-private', prepend=True, macros=[
            latex2text.MacroTextSpec('ss', 'SS!'), latex2text.MacroTextSpec('ae', 'AE!'),
            latex2text.MacroTextSpec('texteuro', 'EUR!'), latex2text.MacroTextSpec("'", 'ACC!'),
            latex2text.MacroTextSpec('alpha', 'ALPHA!'), latex2text.MacroTextSpec('l', 'L!')],
            specials=[latex2text.SpecialsTextSpec('~', 'TIE!')])
        wdb = latexwalker.get_default_latex_context_db()
        wdb.add_context_category('pv-private', prepend=True,
                                 macros=[macrospec.MacroSpec('ss', '{'), macrospec.MacroSpec('o', '{')])
        res.case()
        try:
            private = latex2text.LatexNodes2Text(latex_context=tdb)
            got = private.latex_to_text('\\ss{} \\alpha')
            if 'SS!' not in got or 'ALPHA!' not in got:
                res.fail('c08:private-customisation-ineffective', '%r' % got,
                         {'s': '', 'cfg': ['braces', False], 'extras': 4})
            latexwalker.LatexWalker('\\ss{x}', latex_context=wdb).get_latex_nodes()
        except Exception as e:
            res.fail(exc_key(e), exc_detail(e), {'s': '', 'cfg': ['braces', False], 'extras': 4})
        _L2T.clear()
        try:
            for s in pinned[::5] + ['\u00df', '\u00e6', '\u20ac', '\u00e9', '\u03b1', '\u0142',
                                    'a\xa0b', '\u00f8x', 'stra\u00dfe \u00e6on']:
                if not valid_domain(s):
                    continue
                for cfg in CONFIGS:
                    check(s, cfg, res, {'s': s, 'cfg': list(cfg), 'extras': 4})
                res.nontriv_distinct()
        finally:
            _L2T.clear()
        res.label('after-private-customisation')
    elif k == 2:
        sample = pinned[::7] + ['é x', 'a{b}', '— –', 'ñ\nx', '\\textbf', '50% & #1']
        for s in sample:
            for prot in PROTS:
                res.case()
                want = enc(prot).unicode_to_latex(s)
                got = latexencode.unicode_to_latex(s, replacement_latex_protection=prot,
                                                   unknown_char_policy='keep',
                                                   unknown_char_warning=False)
                if got != want:
                    res.fail('c08:module-helper-differs', 'unicode_to_latex(%r, protection=%s) = '
                             '%r, encoder object gives %r' % (s, prot, got, want),
                             {'s': s, 'cfg': [prot, False], 'helper': True})
            res.case()
            try:
                got = latexencode.utf8tolatex(s, non_ascii_only=False, brackets=True,
                                              substitute_bad_chars=False, fail_bad_chars=False)
                want = enc('braces').unicode_to_latex(s)
            except Exception as e:
                res.fail(exc_key(e), exc_detail(e), {'s': s, 'cfg': ['braces', False], 'helper': True})
                continue
            # (the pylatexenc-1 helper has its own bracketing rule; only that it converts)
            if not isinstance(got, str):
                res.fail('c08:utf8tolatex-not-a-string', repr(type(got)),
                         {'s': s, 'cfg': ['braces', False], 'helper': True})
        res.label('module-helpers')
    else:
        cores = ['é', '—', 'a', 'ł', '\xa0', '{x}', 'ß!', 'α']
        ws = ['', ' ', '  ', '\n', ' \n', '\n\n']
        for a in ws:
            for core in cores:
                for b in ws:
                    for mid in ('', '  '):
                        s = a + core + (mid + core if mid else '') + b
                        if not valid_domain(s):
                            continue
                        for cfg in CONFIGS:
                            check(s, cfg, res, {'s': s, 'cfg': list(cfg)})
                        res.nontriv_distinct()
        res.label('edge-whitespace')
    res.exhaustive = True


def run_shard(shard, res):
    kind = shard[0]
    if kind == 'extras':
        run_extras(shard[1], res)
        return
    if kind == 'singles':
        _, k = shard
        for i, c in enumerate(alphabet()):
            if i % NSHARDS != k:
                continue
            for cfg in CONFIGS:
                check(c, cfg, res, {'s': c, 'cfg': list(cfg), 'single': True}, single=True)
            res.label('single')
        res.exhaustive = True
    elif kind == 'classpairs':
        _, k = shard
        for i, (lc, rc, a, b) in enumerate(class_pairs()):
            if i % NSHARDS != k:
                continue
            for s in (a + b + 'x' if b.isspace() else a + b, 'x' + a + b + 'y'):
                if not valid_domain(s):
                    continue
                for cfg in CONFIGS:
                    check(s, cfg, res, {'s': s, 'cfg': list(cfg)})
                    res.nontriv_distinct()
                res.label('class-pair')
                res.label('pair:%s>%s' % (lc, rc), {'s': s})
    elif kind == 'asciipairs':
        # every ordered pair (and triple of equal characters) of invertible printable ASCII:
        # new ligature-like specials would show here
        _, k = shard
        pinned = set(alphabet())
        ascii_ = [chr(o) for o in range(33, 127) if chr(o) in pinned]
        i = 0
        for a in ascii_:
            for b in ascii_:
                i += 1
                if i % NSHARDS != k:
                    continue
                for s in (a + b, 'x' + a + b + 'y', a + b + b):
                    if not valid_domain(s):
                        continue
                    for cfg in (CONFIGS[0], CONFIGS[3], CONFIGS[4], CONFIGS[6]):
                        check(s, cfg, res, {'s': s, 'cfg': list(cfg)})
                    res.nontriv_distinct()
        res.label('ascii-pairs')
        res.exhaustive = True
    elif kind == 'rand':
        _, n, seed = shard
        from hypothesis import strategies as st
        A = string_alphabet()
        pinned = set(alphabet())
        ascii_ = [chr(o) for o in range(33, 127) if chr(o) in pinned]
        piece = st.one_of(st.sampled_from(A), st.sampled_from(A), st.sampled_from(ascii_),
                          st.sampled_from([' ', ' ', '\n', '\n\n', '  ']))

        def build(parts):
            out = ''
            for p in parts:
                if p.isspace() and (not out or out[-1].isspace()):
                    continue
                cand = out + p
                if any(cand.endswith(l) or l in cand[-3:] for l in LIGATURES):
                    continue
                out = cand
            return out
        strat = st.tuples(st.lists(piece, min_size=2, max_size=12).map(build),
                          st.sampled_from(CONFIGS))

        def one(x):
            s, cfg = x
            if not s or not valid_domain(s):
                res.label('random:skipped-outside-domain')
                return
            check(s, cfg, res, {'s': s, 'cfg': list(cfg)})
            res.label('random')
            if '\n\n' in s:
                res.label('double-newline')
            if len(s) >= 2 and any((not c.isascii()) or c in ACTIVE for c in s):
                res.nontriv((s, cfg))
        hyp_run(strat, one, n, seed)
    else:
        _, k, nsh = shard
        A = string_alphabet()
        for i, a in enumerate(A):
            if i % nsh != k:
                continue
            for b in A:
                s = a + b
                if not valid_domain(s):
                    continue
                for cfg in CONFIGS:
                    check(s, cfg, res, {'s': s, 'cfg': list(cfg)})
                res.nontriv_distinct(len(CONFIGS))
        res.label('all-pairs-shard')
        res.exhaustive = True


def check_case(case, res):
    if case.get('helper'):
        run_extras(2, res)
        return
    if case.get('extras') == 4:
        run_extras(4, res)
        return
    check(case['s'], tuple(case['cfg']), res, case, single=bool(case.get('single')))


def minimise(case, key):
    if case.get('single') or case.get('extras'):
        return case

    def pred(t):
        s = ''.join(t)
        if not s or not valid_domain(s):
            return False
        r = Result()
        check(s, tuple(case['cfg']), r, {})
        return bool(r.failures)
    return dict(case, s=''.join(ddmin(list(case['s']), pred)))
