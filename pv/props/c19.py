"""C19 -- a node visitor sees every node exactly once, children first, in document order."""
from .. import soups, px, contexts, monitor, docgrammar
from ..alphabets import SIG
from ..engine import exc_key, exc_detail, ddmin, Result, hyp_run
from ..treedump import kind
from ..contexts import EXTRA_TOKENS

ID = 'C19'
LEVEL = 'exploration'
RULE = ('(every tree is visited three times: recorder returning unique tokens, recorder returning '
        'falsy values 0/\'\'/None/()/False/0.0, visitor reimplementing only visit()) trees from strict parses of Hypothesis grammar documents (default and every-argument-type '
        'contexts: every node kind, present and absent arguments, list-valued arguments, empty '
        'bodies, nesting) and from tolerant parses of exhaustive / random token soups (None '
        'arguments objects and placeholders). A recording LatexNodesVisitor subclass overrides '
        'every visit_* callback, logs (callback, object identity, keyword arguments) and returns a '
        'unique token; the log must equal the post-order produced by the harness\'s own child '
        'enumeration (arguments through one visit_parsed_arguments before body, document order), '
        'each parent receiving exactly the tokens of its children in order with None at absent '
        'arguments. Non-trivial = tree of depth >= 3 with >= 1 absent argument or missing body / '
        'arguments object; distinct by source string.')
ASSUMPTIONS = ['for a missing (None) body or arguments object any of the documented defaults '
               '(None, [], \'\') is accepted as the value handed to the parent']
NSHARDS = 16
EMPTY = '<EMPTY>'
from ..alphabets import SIG_SMALL, EVERYTYPE_TOKENS      # noqa: E402
ALPHA_EVERY = SIG_SMALL + EVERYTYPE_TOKENS + ['!', '++']
CALLBACK = {'chars': 'visit_chars_node', 'group': 'visit_group_node',
            'comment': 'visit_comment_node', 'macro': 'visit_macro_node',
            'environment': 'visit_environment_node', 'specials': 'visit_specials_node',
            'math': 'visit_math_node', 'list': 'visit_node_list'}

_CTX = {}


def ctx(name):
    if name not in _CTX:
        _CTX[name] = contexts.build(name)
    return _CTX[name]


# what the callbacks return: unique truthy tokens, or -- in 'falsy' mode -- a rotation of values
# that are all false in a boolean context (a visitor may return anything, e.g. '' for a macro
# that renders to nothing, 0 for a count, None by default)
FALSY = [0, '', None, (), False, 0.0]


def result_value(mode, counter):
    if mode == 'falsy':
        return FALSY[counter % len(FALSY)]
    return ('tok', counter)      # modes 'tok' and 'generic'


def make_visitor(mode='tok'):
    from pylatexenc.latexnodes.nodes import LatexNodesVisitor

    class Recorder(LatexNodesVisitor):
        def __init__(self):
            LatexNodesVisitor.__init__(self)
            self.log = []
            self.counter = 0

        def _rec(self, cb, obj, kwargs):
            self.counter += 1
            self.log.append((cb, id(obj), dict(kwargs)))
            return result_value(mode, self.counter)

        def visit_chars_node(self, node, **kw): return self._rec('visit_chars_node', node, kw)
        def visit_group_node(self, node, **kw): return self._rec('visit_group_node', node, kw)
        def visit_comment_node(self, node, **kw): return self._rec('visit_comment_node', node, kw)
        def visit_macro_node(self, node, **kw): return self._rec('visit_macro_node', node, kw)
        def visit_environment_node(self, node, **kw):
            return self._rec('visit_environment_node', node, kw)
        def visit_specials_node(self, node, **kw): return self._rec('visit_specials_node', node, kw)
        def visit_math_node(self, node, **kw): return self._rec('visit_math_node', node, kw)
        def visit_node_list(self, nodes, **kw): return self._rec('visit_node_list', nodes, kw)
        def visit_parsed_arguments(self, pa, **kw):
            return self._rec('visit_parsed_arguments', pa, kw)
        def visit_unknown_node(self, node, **kw): return self._rec('visit_unknown_node', node, kw)
        def visit(self, node, **kw): return self._rec('visit', node, kw)
    if mode == 'generic':
        # a visitor that only reimplements visit(): every default visit_* callback must relay to it
        class Generic(LatexNodesVisitor):
            def __init__(self):
                LatexNodesVisitor.__init__(self)
                self.log = []
                self.counter = 0

            def visit(self, node, **kw):
                self.counter += 1
                self.log.append(('visit', id(node), dict(kw)))
                return ('tok', self.counter)
        return Generic()
    return Recorder()


class Expect(object):
    """own post-order enumeration"""

    def __init__(self, mode='tok'):
        self.mode = mode
        self.log = []
        self.counter = 0
        self.maxdepth = 0
        self.absent = 0

    def rec(self, cb, obj, kwargs):
        self.counter += 1
        self.log.append((cb, id(obj), kwargs))
        return result_value(self.mode, self.counter)

    def children(self, nodelist, depth):
        if nodelist is None:
            self.absent += 1
            return EMPTY
        items = nodelist.nodelist if hasattr(nodelist, 'nodelist') else list(nodelist)
        out = []
        for c in items:
            if c is None:
                self.absent += 1
                out.append(None)
            else:
                out.append(self.node(c, depth + 1))
        return out

    def args(self, nad, depth):
        if nad is None:
            self.absent += 1
            return EMPTY
        argn = getattr(nad, 'argnlist', None)
        res = self.children(argn, depth) if argn is not None else EMPTY
        return self.rec('visit_parsed_arguments', nad, {'visited_results_argnlist': res})

    def node(self, n, depth=1):
        self.maxdepth = max(self.maxdepth, depth)
        k = kind(n)
        if k == 'list':
            res = self.children(n, depth)
            return self.rec('visit_node_list', n, {'visited_results_nodelist': res})
        if k in ('chars', 'comment'):
            return self.rec(CALLBACK[k], n, {})
        if k in ('group', 'math'):
            res = self.children(n.nodelist, depth)
            return self.rec(CALLBACK[k], n, {'visited_results_nodelist': res})
        if k in ('macro', 'specials'):
            a = self.args(n.nodeargd, depth)
            return self.rec(CALLBACK[k], n, {'visited_results_arguments': a})
        if k == 'environment':
            a = self.args(n.nodeargd, depth)
            b = self.children(n.nodelist, depth)
            return self.rec(CALLBACK[k], n, {'visited_results_arguments': a,
                                             'visited_results_body': b})
        return self.rec('visit_unknown_node', n, {})


def same_value(got, want):
    if isinstance(want, str) and want == EMPTY:
        return got is None or got == [] or got == ''
    if isinstance(want, list):
        # (the results of the children, in order: any sequence type)
        return isinstance(got, (list, tuple)) and len(got) == len(want) and \
            all(same_value(g, w) for g, w in zip(got, want))
    return type(got) is type(want) and got == want


def check_tree(s, nl, res, case, mode='tok', foreign=False):
    res.case()
    exp = Expect(mode)
    exp.node(nl)
    vis = make_visitor(mode)
    try:
        started = vis.start(nl)
    except Exception as e:
        if foreign:
            # the tree holds a node of a class the library does not know: it may refuse it
            res.label('foreign-node-refused')
            return exp
        res.fail(exc_key(e), exc_detail(e), case)
        return exp
    got, want = vis.log, exp.log
    if mode == 'generic':
        want = [('visit', w[1], w[2]) for w in want]
    ids_got = [g[1] for g in got]
    if len(set(ids_got)) != len(ids_got):
        dup = [g[0] for g in got if ids_got.count(g[1]) > 1]
        res.fail('c19:visited-twice:%s' % dup[0], 'objects visited more than once: %r' % dup[:4],
                 case)
        return exp
    missing = [w for w in want if w[1] not in set(ids_got)]
    if missing:
        res.fail('c19:not-visited:%s' % missing[0][0],
                 '%d object(s) never visited, first is a %s' % (len(missing), missing[0][0]), case)
        return exp
    for i, (g, w) in enumerate(zip(got, want)):
        if g[0] != w[0] or g[1] != w[1]:
            res.fail('c19:order:%s-before-%s' % (g[0], w[0]),
                     'step %d: visited %s, expected %s (children first, arguments before body, '
                     'document order)' % (i, g[0], w[0]), case)
            return exp
        if not set(w[2]) <= set(g[2]):      # (further keyword arguments are no concern)
            res.fail('c19:kwargs:%s' % g[0], 'callback %s got keyword arguments %r, expected %r'
                     % (g[0], sorted(g[2]), sorted(w[2])), case)
            return exp
        for key in w[2]:
            if not same_value(g[2][key], w[2][key]):
                res.fail('c19:child-results:%s:%s%s' % (g[0], key, ':falsy-results' if mode == 'falsy'
                                                        else ''),
                         '%s received %s=%r, its children returned %r'
                         % (g[0], key, g[2][key], w[2][key]), case)
                return exp
    if len(got) != len(want):
        res.fail('c19:extra-callbacks', '%d callbacks, expected %d' % (len(got), len(want)), case)
    return exp


def make_unknown_node(like):
    from pylatexenc.latexnodes.nodes import LatexNode

    class PvForeignNode(LatexNode):
        pass
    try:
        return PvForeignNode(_fields=(), parsing_state=getattr(like, 'parsing_state', None),
                             latex_walker=getattr(like, 'latex_walker', None),
                             pos=getattr(like, 'pos', None), pos_end=getattr(like, 'pos', None))
    except Exception:
        return None         # (the base class cannot be instantiated this way: shape not used)


def surgery(nl, salt):
    """turn a parsed tree into shapes parsing rarely or never produces but a tree may have (the
    node classes document them): body None, arguments object None, argument list None, a node of
    a class the visitor has no dedicated callback for.  Deterministic in (tree, salt)."""
    from ..treedump import walk
    done = set()
    i = salt
    for n in list(walk(nl)):
        k = kind(n)
        if k == 'list':
            continue
        i += 1
        if k in ('group', 'math', 'environment') and i % 5 == 0:
            try:
                n.nodelist = None
                done.add('body-none')
            except Exception:
                pass
        elif k in ('macro', 'environment', 'specials') and i % 5 == 1 and n.nodeargd is not None:
            try:
                n.nodeargd = None
                done.add('nodeargd-none')
            except Exception:
                pass
        elif k in ('group', 'math', 'environment') and i % 5 == 3 and n.nodelist is not None \
                and hasattr(n.nodelist, 'nodelist'):
            try:
                u = make_unknown_node(n)
                if u is not None:
                    n.nodelist.nodelist.append(u)
                    done.add('unknown-node-kind')
            except Exception:
                pass
    return done


def classify(exp, res, s, case):
    for cb in set(w[0] for w in exp.log):
        res.label('cb:' + cb)
    if exp.absent:
        res.label('has-absent-argument-or-body')
    if exp.maxdepth >= 3 and exp.absent:
        res.nontriv(s)
        res.label('non-trivial', case)


def plan(tier, seed):
    ndocs, L, nrand = (3200, 3, 1600) if tier == 'quick' else (80000, 4, 40000)
    shards = [('docs', ndocs // NSHARDS, seed * 1000 + k) for k in range(NSHARDS)]
    shards += [('soup', L, k) for k in range(NSHARDS)]
    shards += [('xsoup', L, k) for k in range(NSHARDS)]
    shards += [('esoup', L, k) for k in range(NSHARDS)]
    shards += [('rand', nrand // NSHARDS, seed * 1000 + 500 + k) for k in range(NSHARDS)]
    return {'shards': shards, 'bounds': {'documents': ndocs, 'soup_len': L, 'random_soups': nrand},
            'required_classes': ['after-another-visitor-class'] + ['cb:' + c for c in CALLBACK.values()] +
                                ['cb:visit_parsed_arguments', 'has-absent-argument-or-body',
                                 'non-trivial', 'tolerant-tree', 'falsy-results', 'generic-visit-only',
                                 'specials-with-arguments']}


def do_source(s, ctxname, tolerant, res, case):
    try:
        w, nl = px.parse(s, ctx(ctxname), tolerant=tolerant)
    except monitor.NonTermination:
        return
    except Exception:
        return      # parsing outcomes are C05/C06's business
    if nl is None:
        return
    if tolerant:
        res.label('tolerant-tree')
    if case.get('surgery') is not None:       # replay of a synthetic-shape case
        done = surgery(nl, case['surgery'])
        for mode in ('tok', 'falsy'):
            check_tree(s, nl, res, case, mode=mode, foreign='unknown-node-kind' in done)
        return
    # another visitor class at work on the tree first -- the recomposer the library itself ships,
    # which redefines the standard processing of every node kind: what a visitor sees does not
    # depend on which other visitor classes have been used in the process
    try:
        from pylatexenc.latexnodes import LatexNodesLatexRecomposer
        LatexNodesLatexRecomposer().latex_recompose(nl)
        res.label('after-another-visitor-class')
    except Exception:
        pass        # (the recomposer's own behaviour is not the subject here)
    exp = check_tree(s, nl, res, case)
    classify(exp, res, s, case)
    check_tree(s, nl, res, case, mode='falsy')
    res.label('falsy-results')
    check_tree(s, nl, res, case, mode='generic')
    res.label('generic-visit-only')
    from ..treedump import walk as _walk
    if any(kind(n) == 'specials' and n.nodeargd is not None and getattr(n.nodeargd, 'argnlist', None)
           for n in _walk(nl)):
        res.label('specials-with-arguments', case)
    if case.get('surgery') is None and len(exp.log) >= 4:
        # the same tree after surgery (synthetic shapes); in-place, so last
        salt = len(s)
        done = surgery(nl, salt)
        for what in done:
            res.label('synthetic:' + what)
        for mode in ('tok', 'falsy'):
            e2 = check_tree(s, nl, res, dict(case, surgery=salt), mode=mode,
                            foreign='unknown-node-kind' in done)
            for cb in set(w[0] for w in e2.log):
                res.label('cb:' + cb)


def run_shard(shard, res):
    kind_ = shard[0]
    if kind_ == 'docs':
        _, n, seed = shard

        def one(doc):
            signame, src = doc
            c = docgrammar.CTX_OF[signame]
            do_source(src, c, False, res, {'src': src, 'ctx': c, 'tolerant': False})
        hyp_run(docgrammar.source_strategy(), one, n, seed)
    elif kind_ == 'xsoup':
        _, L, k = shard
        for toks in soups.enum_tokens(EXTRA_TOKENS, L, k, NSHARDS):
            s = ''.join(toks)
            for tol in (False, True):
                do_source(s, 'extra', tol, res, {'src': s, 'ctx': 'extra', 'tolerant': tol})
        res.exhaustive = True
    elif kind_ == 'esoup':
        _, L, k = shard
        for toks in soups.enum_tokens(ALPHA_EVERY, L, k, NSHARDS):
            s = ''.join(toks)
            for tol in (False, True):
                do_source(s, 'every', tol, res, {'src': s, 'ctx': 'every', 'tolerant': tol})
        res.exhaustive = True
    elif kind_ == 'soup':
        _, L, k = shard
        for toks in soups.enum_tokens(SIG, L, k, NSHARDS):
            s = ''.join(toks)
            do_source(s, 'default', True, res, {'src': s, 'ctx': 'default', 'tolerant': True})
        res.exhaustive = True
    else:
        _, n, seed = shard

        def one(toks):
            s = ''.join(toks)
            do_source(s, 'default', True, res, {'src': s, 'ctx': 'default', 'tolerant': True})
        hyp_run(soups.soup_strategy(SIG, 3, 30), one, n, seed)


def check_case(case, res):
    do_source(case['src'], case['ctx'], case['tolerant'], res, case)


def minimise(case, key):
    from ..models import minitok
    src = case['src']
    toks = [src[a:b] for _, a, b in minitok.tokens(src)]

    def pred(t):
        r = Result()
        check_case(dict(case, src=''.join(t)), r)
        return key in r.failures
    return dict(case, src=''.join(ddmin(toks, pred)))
