"""C12 -- latex2text content filters: comments, math modes, discards."""
import itertools

from .. import contexts, docgrammar, monitor
from ..engine import exc_key, exc_detail, ddmin, Result, hyp_run

ID = 'C12'
LEVEL = 'exploration'
RULE = ('Hypothesis grammar documents in which every comment carries a unique word CMTk, every '
        'piece of formula content MTHk, every piece of content of a declared-discarded construct '
        '(custom discard=True macro with optional and mandatory arguments / environment) DSCk, and '
        'ordinary text TXTk; markers sit at every nesting position the grammar offers (arguments, '
        'optional arguments, environment bodies, math, after macros, between a macro and its '
        'argument, last token without newline). Options: 4 math_mode x keep_comments x 5 '
        'strict_latex_spaces x fill_text {off, 30} (pairwise-covering subset in quick). Oracle on '
        'latex_to_text(doc): negative directions everywhere (no CMTk unless keep_comments, except '
        'inside a formula kept verbatim; no MTHk under remove; no DSCk ever), positive directions '
        'at positions visible by construction (keep_comments: every list-level comment outside '
        'math / discarded / non-rendered arguments; verbatim: exact source slice of every visible '
        'formula; with-delimiters: open, MTHk, close in order; every visible TXTk). A math environment inside a formula keeps its own \\begin / \\end. Non-trivial = '
        'document with markers of >= 2 kinds, one of them nested; distinct by (source, options).')
ASSUMPTIONS = [
    'visible positions: document level, groups, braces of \\textbf/\\emph/\\textit, bodies of '
    'itemize / enumerate / center / unknown environments',
    'markers are upper-case alphanumerics, so case-changing replacements cannot hide or fake them',
]
NSHARDS = 16
MATH_MODES = ['text', 'with-delimiters', 'verbatim', 'remove']
SPACES = [False, 'based-on-source', 'except-in-equations', True, 'macros']
ALL_OPTS = [dict(math_mode=m, keep_comments=c, strict_latex_spaces=s, fill_text=f)
            for m in MATH_MODES for c in (False, True) for s in SPACES for f in (None, 30)]
TRANSPARENT_MACROS = ('textbf', 'emph', 'textit')
TRANSPARENT_ENVS = ('itemize', 'enumerate', 'center', 'x')
MATH_ENVS = ('equation', 'align*')
DISCARD_MACROS = ('dmac', 'dmacb')
DISCARD_ENVS = ('denv',)


def quick_opts():
    keys = ['math_mode', 'keep_comments', 'strict_latex_spaces', 'fill_text']
    need = set()
    for a, b in itertools.combinations(keys, 2):
        for o in ALL_OPTS:
            need.add((a, repr(o[a]), b, repr(o[b])))
    chosen = []
    while need:
        best = max(ALL_OPTS, key=lambda o: sum(1 for a, b in itertools.combinations(keys, 2)
                                                if (a, repr(o[a]), b, repr(o[b])) in need))
        chosen.append(best)
        for a, b in itertools.combinations(keys, 2):
            need.discard((a, repr(best[a]), b, repr(best[b])))
    return chosen


class Relabel(object):
    """walks the AST, replaces texts by marker words and records where each marker sits"""

    def __init__(self):
        self.n = 0
        self.markers = []       # dicts: word, kind, visible, in_math (formula index or None), ...
        self.formulas = []      # dicts: idx, visible, open, close, env, body markers

    def word(self, kind):
        self.n += 1
        return '%s%dX' % (kind, self.n)

    def items(self, items, st):
        out = []
        for it in items:
            it = list(it)
            k = it[0]
            if k == 'text':
                kind = 'DSC' if st['discard'] else ('MTH' if st['formula'] is not None else 'TXT')
                w = self.word(kind)
                # keep a leading/trailing blank so that words do not fuse
                it[1] = w + ' '
                self.markers.append({'word': w, 'kind': kind, 'visible': st['visible'],
                                     'formula': st['formula'], 'body_level': st['body_level']})
            elif k == 'comment':
                w = self.word('CMT')
                it[1] = ' ' + w + ' '
                self.markers.append({'word': w, 'kind': 'CMT',
                                     'visible': st['visible'] and st['formula'] is None
                                     and not st['discard'],
                                     'formula': st['formula'], 'body_level': False,
                                     'discard': st['discard'],
                                     'shown_in_formula': st['visible'] and not st['discard']
                                     and st['formula'] is not None})
            elif k == 'group':
                it[1] = self.items(it[1], dict(st, body_level=st['body_level']))
            elif k == 'bgroup':
                it[1] = self.items(it[1], dict(st))
            elif k == 'macro':
                name = it[1]
                transparent = name in TRANSPARENT_MACROS
                disc = st['discard'] or name in DISCARD_MACROS
                it[3] = [self.slot(sl, dict(st, visible=st['visible'] and transparent and not disc,
                                           discard=disc, body_level=False)) for sl in it[3]]
            elif k == 'env':
                name = it[1]
                disc = st['discard'] or name in DISCARD_ENVS
                it[2] = [self.slot(sl, dict(st, visible=False, discard=disc, body_level=False))
                         for sl in it[2]]
                if name in MATH_ENVS and st['formula'] is None:
                    f = {'idx': len(self.formulas), 'visible': st['visible'] and not disc,
                         'open': '\\begin{%s}' % name, 'close': '\\end{%s}' % name, 'env': True}
                    self.formulas.append(f)
                    it[3] = self.items(it[3], dict(st, formula=f['idx'], body_level=True,
                                                   discard=disc, visible=st['visible'] and not disc))
                else:
                    vis = st['visible'] and name in TRANSPARENT_ENVS and not disc
                    it[3] = self.items(it[3], dict(st, visible=vis, discard=disc,
                                                   body_level=st['body_level'] and name in
                                                   TRANSPARENT_ENVS))
            elif k == 'math':
                if st['formula'] is None:
                    f = {'idx': len(self.formulas), 'visible': st['visible'] and not st['discard'],
                         'open': it[1], 'close': it[2], 'env': False}
                    self.formulas.append(f)
                    it[3] = self.items(it[3], dict(st, formula=f['idx'], body_level=True))
                else:
                    it[3] = self.items(it[3], dict(st, body_level=False))
            out.append(it)
        return out

    def slot(self, sl, st):
        if sl is None:
            return None
        form, pre, content = sl
        pre2 = []
        for p in pre:
            p = list(p)
            if p[0] == 'comment':
                w = self.word('CMT')
                p[1] = ' ' + w + ' '
                self.markers.append({'word': w, 'kind': 'CMT', 'visible': False,
                                     'formula': st['formula'], 'body_level': False,
                                     'between_macro_and_arg': True, 'discard': st['discard'],
                                     'macro_shown': st['visible'] and not st['discard']
                                     and st['formula'] is None})
            pre2.append(p)
        if form in ('braced', 'bracket'):
            content = self.items(content, dict(st, visible=st['visible'] and form == 'braced'))
        elif form == 'token':
            pass        # a single-token argument stays a single token (never a marker word)
        return [form, pre2, content]


_L2T = {}
_WCTX = []


def l2t(opts):
    from pylatexenc.latex2text import LatexNodes2Text
    k = repr(sorted(opts.items()))
    if k not in _L2T:
        _L2T[k] = LatexNodes2Text(latex_context=contexts.l2t_c12_db(), **opts)
    return _L2T[k]


def wctx():
    if not _WCTX:
        _WCTX.append(contexts.build('c12'))
    return _WCTX[0]


def check_doc(ast, opts_list, res, case_base):
    rl = Relabel()
    sig = docgrammar.SIGS['c12']
    ast2 = docgrammar.normalise(
        rl.items(ast, {'visible': True, 'discard': False, 'formula': None, 'body_level': False}),
        sig)
    src, modes, maths = docgrammar.render_modes(ast2)
    # comment as last token without newline: drop the final newline of a trailing comment
    if ast2 and ast2[-1][0] == 'comment':
        src = src.rstrip('\n ')
        res.label('comment-last-without-newline')
    kinds = set(m['kind'] for m in rl.markers)
    nested = any(not m['visible'] or m['formula'] is not None for m in rl.markers)
    for opts in opts_list:
        res.case()
        case = dict(case_base, opts=opts)
        try:
            with monitor.budget(len(src)):
                out = l2t(opts).latex_to_text(src, latex_context=wctx())
        except BaseException as e:
            res.fail(exc_key(e), exc_detail(e) + ' on %r' % src, case)
            continue
        mm, kc = opts['math_mode'], opts['keep_comments']
        # fill_text may re-wrap lines (even inside a long word): compare modulo whitespace
        raw_out = out
        out = ''.join(out.split())
        for m in rl.markers:
            w, present = m['word'], m['word'] in out
            if m['kind'] == 'DSC' and present and not (mm == 'verbatim'
                                                        and m['formula'] is not None):
                res.fail('c12:discarded-content-appears', 'marker %s of a discarded construct '
                         'appears in the output of %r: %r' % (w, src, out), case)
            elif m['kind'] == 'CMT':
                in_verbatim_math = mm == 'verbatim' and m['formula'] is not None
                if not kc and present and not in_verbatim_math:
                    res.fail('c12:comment-leaks:%s' % ('between-macro-and-arg' if m.get(
                        'between_macro_and_arg') else ('in-math' if m['formula'] is not None else
                                                       'list-level')),
                             'comment marker %s appears although keep_comments is off: %r -> %r'
                             % (w, src, out), case)
                if kc and m['visible'] and not present:
                    res.fail('c12:comment-missing', 'keep_comments is on but visible comment %s '
                             'is missing: %r -> %r' % (w, src, out), case)
                if kc and m.get('shown_in_formula') and not present and mm != 'remove' \
                        and rl.formulas[m['formula']]['visible']:
                    res.fail('c12:comment-missing:in-formula', 'keep_comments is on, the formula '
                             'is shown (math_mode=%s) but its comment %s is missing: %r -> %r'
                             % (mm, w, src, out), case)
                if kc and m.get('macro_shown') and not present:
                    # (listed in KNOWN_FINDINGS.txt: the argument parser skips such a comment
                    # and the node tree does not hold it)
                    res.fail('c12:comment-missing:between-macro-and-argument',
                             'keep_comments is on but the comment %s between a macro / environment '
                             'and its argument is missing: %r -> %r' % (w, src, out), case)
            elif m['kind'] == 'MTH':
                if mm == 'remove' and present:
                    res.fail('c12:math-not-removed', "math_mode='remove' but formula content %s "
                             'appears: %r -> %r' % (w, src, out), case)
            elif m['kind'] == 'TXT':
                if m['visible'] and not present:
                    res.fail('c12:visible-text-missing', 'ordinary text %s at a visible position '
                             'is missing: %r -> %r' % (w, src, out), case)
        for f, rec in zip(rl.formulas, formula_spans(src, rl)):
            if not f['visible'] or rec is None:
                continue
            a, b = rec
            body = [m['word'] for m in rl.markers if m['formula'] == f['idx'] and m['kind'] == 'MTH'
                    and m['body_level']]
            if mm == 'verbatim' and (''.join(src[a:b].split()) not in out or (
                    opts['fill_text'] is None and src[a:b] not in raw_out)):
                res.fail('c12:verbatim-math-changed:%s' % ('env' if f['env'] else f['open']),
                         "math_mode='verbatim' but the formula source %r does not appear "
                         'unchanged in %r' % (src[a:b], out), case)
            if mm == 'with-delimiters':
                pos = out.find(''.join(f['open'].split()))
                ok = pos >= 0
                for w in body:
                    if ok:
                        pos = out.find(w, pos)
                        ok = pos >= 0
                if ok:
                    ok = out.find(''.join(f['close'].split()), pos) >= 0
                if not ok:
                    res.fail('c12:with-delimiters:%s' % ('env' if f['env'] else f['open']),
                             "math_mode='with-delimiters' but %r ... %r ... %r do not occur in "
                             'order in %r (source %r)' % (f['open'], body, f['close'], out, src),
                             case)
            if mm == 'text':
                for w in body:
                    if w not in out:
                        res.fail('c12:math-text-missing', 'formula content %s missing under '
                                 "math_mode='text': %r -> %r" % (w, src, out), case)
        if len(kinds) >= 2 and nested:
            res.nontriv((src, repr(sorted(opts.items()))))
    for k in kinds:
        res.label('marker:' + k, {'src': src})
    for m in rl.markers:
        if m.get('between_macro_and_arg'):
            res.label('comment-between-macro-and-argument')
        if m['kind'] == 'CMT' and m['formula'] is not None:
            res.label('comment-in-math')
        if m['kind'] == 'DSC':
            res.label('discarded-content')
    for f in rl.formulas:
        res.label('formula:' + ('env' if f['env'] else f['open']))


def formula_spans(src, rl):
    """source span of each formula, located through its first own marker (formulas in order)"""
    out = []
    for f in rl.formulas:
        if f['env']:
            a = -1
            # n-th occurrence is ambiguous for nested environments of the same name: locate by
            # the first marker inside
            inner = [m['word'] for m in rl.markers if m['formula'] == f['idx']]
            if not inner:
                out.append(None)
                continue
            p = src.find(inner[0])
            a = src.rfind(f['open'], 0, p)
            b = src.find(f['close'], p)
            out.append((a, b + len(f['close'])) if a >= 0 and b >= 0 else None)
        else:
            inner = [m['word'] for m in rl.markers if m['formula'] == f['idx']]
            if not inner:
                out.append(None)
                continue
            p = src.find(inner[0])
            a = src.rfind(f['open'], 0, p)
            b = src.find(f['close'], p)
            # formulas containing nested text-mode material with further delimiters are skipped
            if a < 0 or b < 0 or any(d in src[a + len(f['open']):b] for d in ('$', '\\(', '\\[')):
                out.append(None)
            else:
                out.append((a, b + len(f['close'])))
    return out


def plan(tier, seed):
    n = 1920 if tier == 'quick' else 40000
    shards = [('docs', n // NSHARDS, seed * 1000 + k, tier) for k in range(NSHARDS)]
    shards += [('names', k, tier) for k in range(NSHARDS)]
    shards += [('mathenvs', k, tier) for k in range(4)]
    shards += [('declared', k, tier) for k in range(2)]
    return {'shards': shards, 'bounds': {'documents': n, 'option_sets':
                                         len(quick_opts()) if tier == 'quick' else len(ALL_OPTS)},
            'required_classes': ['marker:CMT', 'marker:MTH', 'marker:DSC', 'marker:TXT',
                                 'comment-between-macro-and-argument', 'comment-in-math',
                                 'discarded-content', 'formula:$', 'formula:env', 'formula:\\[',
                                 'comment-last-without-newline',
                                 'comment-after-every-known-name', 'math-environment-sweep',
                                 'formula-kind:split', 'formula-kind:alignat',
                                 'declared-route:spec-objects', 'declared-route:legacy-defs']}


def check_names(k, tier, res):
    """a comment directly / after whitespace / after the arguments of every macro and environment
    name known to the default walker database must not leak when keep_comments is off"""
    from .c07 import names, _args
    macros, envs = names()
    opts = [o for o in (quick_opts() if tier == 'quick' else ALL_OPTS) if not o['keep_comments']
            and o['math_mode'] != 'verbatim'][:6]
    items = [('m', n, a) for n, a in sorted(macros.items())] + \
            [('e', n, a) for n, a in sorted(envs.items())]
    for i, (what, n, a) in enumerate(items):
        if i % NSHARDS != k or n in ('verb', 'verbatim', 'lstlisting', 'input', 'include'):
            continue
        if what == 'm':
            m = '\\' + n
            srcs = ['A' + m + '%CMTQ\nB', 'A' + m + ' %CMTQ\n B', 'A' + m + _args(a, True) +
                    '%CMTQ\nB', '{' + m + '%CMTQ\n}B', '$' + m + '%CMTQ\n$B']
        else:
            b, e = '\\begin{%s}' % n, '\\end{%s}' % n
            srcs = [b + '%CMTQ\n' + _args(a, True) + 'x' + e, b + _args(a, True) + '%CMTQ\nx' + e,
                    b + _args(a, True) + 'x%CMTQ\n' + e, b + _args(a, True) + 'x' + e + '%CMTQ']
        for src in srcs:
            for o in opts:
                res.case()
                case = {'src': src, 'opts': o}
                try:
                    with monitor.budget(len(src)):
                        out = l2t(o).latex_to_text(src, latex_context=wctx())
                except BaseException as e:
                    res.fail(exc_key(e), exc_detail(e) + ' on %r' % src, case)
                    continue
                if 'CMTQ' in ''.join(out.split()):
                    res.fail('c12:comment-leaks:after-known-name',
                             'comment text appears although keep_comments is off: %r -> %r'
                             % (src, out), case)
                res.nontriv_distinct()
        if what == 'e':
            # the other direction, for every environment that renders its body: with
            # keep_comments on, a comment in the body -- also one after the last row separator,
            # just before \end -- appears wherever the body text around it appears
            kopts = [o for o in (quick_opts() if tier == 'quick' else ALL_OPTS)
                     if o['keep_comments'] and o['math_mode'] in ('text', 'with-delimiters')][:4]
            bodies = ['XBQ %CMTQ\n y', 'XBQ \\\\ %CMTQ\n', 'XBQ & b \\\\ c & d \\\\ %CMTQ\n ',
                      'XBQ\n%CMTQ\n']
            for body in bodies:
                src = 'A ' + b + _args(a, True) + body + e + ' B'
                for o in kopts:
                    res.case()
                    case = {'src': src, 'opts': o}
                    try:
                        with monitor.budget(len(src)):
                            out = l2t(o).latex_to_text(src, latex_context=wctx())
                    except BaseException as ex:
                        res.fail(exc_key(ex), exc_detail(ex) + ' on %r' % src, case)
                        continue
                    flat = ''.join(out.split())
                    if 'XBQ' in flat and 'CMTQ' not in flat:
                        res.fail('c12:comment-missing:in-environment-body',
                                 'keep_comments is on and the body of %s is rendered, but its '
                                 'comment is missing: %r -> %r' % (n, src, out), case)
                    res.nontriv_distinct()
            res.label('comment-kept-in-every-rendered-environment-body')
        res.label('comment-after-every-known-name')


def math_environments():
    """(name, argument text) of every environment the default walker database parses in math
    mode, read from the tree at run time"""
    from pylatexenc.latexwalker import get_default_latex_context_db, LatexWalker
    from ..treedump import walk, kind
    out = []
    for sp in get_default_latex_context_db().iter_environment_specs():
        name = sp.environmentname
        args = '{2}' * len(getattr(sp, 'arguments_spec_list', None) or [])
        # "parses in math mode" is observed, not read from an attribute of the specification
        try:
            src = '\\begin{%s}%s x\\end{%s}' % (name, args, name)
            nl = LatexWalker(src, tolerant_parsing=False).get_latex_nodes()[0]
            body = [n for n in walk(nl[0].nodelist) if kind(n) == 'chars']
            if body and all(n.parsing_state.in_math_mode for n in body):
                out.append((name, args))
        except Exception:
            pass
    return sorted(out)


FORMULA_SHAPES = [('plain', '%(b)s%(a)s x &= MTHQ y \\\\ z %(e)s'),
                  ('comment', '%(b)s%(a)s x MTHQ %%CMTQ\n y%(e)s'),
                  ('multi-line', '%(b)s%(a)s\n x MTHQ\n\n y\n%(e)s'),
                  # carriage returns: CRLF line ends inside a formula, a bare CR inside a comment
                  ('crlf', '%(b)s%(a)s\r\n x MTHQ\r\n y\r\n%(e)s'),
                  ('comment-cr', '%(b)s%(a)s x MTHQ %%c \r CMTQ\n y%(e)s'),
                  ('in-group', '{\\textbf{%(b)s%(a)s MTHQ%(e)s}}'),
                  ('nested', '\\begin{equation}%(b)s%(a)s MTHQ %(e)s\\end{equation}'),
                  ('in-item', '\\begin{itemize}\\item %(b)s%(a)s MTHQ%(e)s\\end{itemize}')]


def check_formula(src, formula_src, opts, res, case, top=True):
    """the four math modes and the comment rule on one document TXAQ <formula> TXBQ"""
    from pylatexenc.latex2text import LatexNodes2Text
    res.case()
    doc = 'TXAQ ' + src + ' TXBQ'
    try:
        with monitor.budget(len(doc)):
            out = LatexNodes2Text(**opts).latex_to_text(doc)
    except BaseException as e:
        res.fail(exc_key(e), exc_detail(e) + ' on %r' % doc, case)
        return
    import re
    import unicodedata
    # (compatibility-normalised: a renderer may typeset math letters in a mathematical alphabet)
    flat = ''.join(unicodedata.normalize('NFKC', out).split())
    mm, kc = opts['math_mode'], opts['keep_comments']
    # ('verbatim' keeps the source unchanged; whether a comment inside it counts as source or
    # falls under "comments never appear" is not decided here: both are accepted below)
    if 'TXAQ' not in flat or 'TXBQ' not in flat:
        res.fail('c12:visible-text-missing:around-formula', '%r -> %r' % (doc, out), case)
    if mm == 'remove' and 'MTHQ' in flat:
        res.fail('c12:math-not-removed:%s' % case['what'], 'math_mode=remove but formula content '
                 'appears: %r -> %r' % (doc, out), case)
    if mm in ('text', 'with-delimiters') and 'MTHQ' not in flat:
        res.fail('c12:math-content-missing:%s' % case['what'], '%r -> %r' % (doc, out), case)
    if mm == 'verbatim' and top and ''.join(formula_src.split()) not in flat \
            and not (not kc and ''.join(re.sub(r'%[^\n]*\n?', '', formula_src).split()) in flat):
        res.fail('c12:verbatim-math-changed:%s' % case['what'], 'source %r of the formula is not in '
                 'the output %r' % (formula_src, out), case)
    if mm == 'verbatim' and top and opts.get('fill_text') is None and formula_src not in out \
            and not (not kc and re.sub(r'%[^\n]*\n?', '', formula_src) in out):
        res.fail('c12:verbatim-math-changed:%s' % case['what'], 'source %r of the '
                 'formula is not in the output unchanged: %r' % (formula_src, out), case)
    if mm == 'with-delimiters' and top:
        o, c = case['delims']
        i = flat.find(''.join(o.split()))
        j = flat.find('MTHQ', i + 1) if i >= 0 else -1
        k = flat.find(''.join(c.split()), j + 1) if j >= 0 else -1
        if min(i, j, k) < 0:
            res.fail('c12:delimiters-lost:%s' % case['what'], 'with-delimiters: %r, MTHQ, %r do '
                     'not occur in this order in %r' % (o, c, out), case)
        elif case.get('inner_delims'):
            # a math environment inside another formula keeps its own \begin / \end as well
            o2, c2 = case['inner_delims']
            i2 = flat.find(''.join(o2.split()), i + 1)
            k2 = flat.find(''.join(c2.split()), j + 1)
            if not (0 <= i2 < j < k2 <= k):
                res.fail('c12:delimiters-lost:nested-%s' % case['what'], 'with-delimiters: the inner '
                         '%r ... %r do not enclose MTHQ inside the outer formula in %r'
                         % (o2, c2, out), case)
    if 'CMTQ' in doc:
        present = 'CMTQ' in flat
        if not kc and present and mm != 'verbatim':
            res.fail('c12:comment-leaks:in-math', '%r -> %r' % (doc, out), case)
        if kc and not present and mm != 'remove':
            res.fail('c12:comment-missing:in-formula', 'keep_comments is on, the formula is shown '
                     '(math_mode=%s) but its comment is missing: %r -> %r' % (mm, doc, out), case)
    res.nontriv_distinct()


def formula_opts(tier):
    return [dict(math_mode=m, keep_comments=c, strict_latex_spaces=sp, fill_text=f)
            for m in MATH_MODES for c in (False, True)
            for sp in (('macros', True) if tier == 'quick' else SPACES)
            for f in ((None,) if tier == 'quick' else (None, 30))]


def run_mathenvs(k, tier, res):
    forms = [(n, '\\begin{%s}' % n, a, '\\end{%s}' % n) for n, a in math_environments()]
    forms += [('$', '$', '', '$'), ('\\(', '\\(', '', '\\)'), ('$$', '$$', '', '$$'),
              ('\\[', '\\[', '', '\\]')]
    for i, (name, b, a, e) in enumerate(forms):
        if i % 4 != k:
            continue
        res.label('formula-kind:' + name)
        for shape, tpl in FORMULA_SHAPES:
            if shape == 'nested' and not name.isalpha():
                continue
            if shape == 'multi-line' and name in ('$', '\\('):
                continue        # a blank line ends inline math in LaTeX
            src = tpl % {'b': b, 'a': a, 'e': e}
            inner = (FORMULA_SHAPES[0][1] if shape in ('in-group', 'nested', 'in-item') else tpl)
            fsrc = src if shape in ('plain', 'comment', 'multi-line', 'crlf', 'comment-cr') else \
                (b + a + ' MTHQ ' + e if shape == 'nested' else b + a + ' MTHQ' + e)
            if shape == 'nested':
                fsrc = src
            for o in formula_opts(tier):
                check_formula(src, fsrc, o, res,
                              {'kind': 'formula', 'src': src, 'fsrc': fsrc, 'opts': o,
                               'what': ('env' if name[0].isalpha() else 'delimited'), 'shape': shape,
                               'inner_delims': [b, e] if shape == 'nested' else None,
                               'delims': ['\\begin{equation}', '\\end{equation}']
                               if shape == 'nested' else [b, e]})
    res.label('math-environment-sweep')
    res.exhaustive = True


def declared_db(route):
    """text databases in which constructs are declared as discarded through each declaration
    route the library offers"""
    from pylatexenc import latex2text as L
    from pylatexenc import macrospec
    wdb = contexts.default_db()
    wdb.add_context_category('pv-decl', prepend=True,
                             macros=[macrospec.MacroSpec('dmac', '[{'), macrospec.MacroSpec('dbare', '{')],
                             environments=[macrospec.EnvironmentSpec('denv', '[')],
                             specials=[macrospec.SpecialsSpec('@@', '{'), macrospec.SpecialsSpec('@!')])
    tdb = L.get_default_latex_context_db()
    if route == 'spec-objects':
        tdb.add_context_category('pv-decl', prepend=True, macros=[
            L.MacroTextSpec('dmac', discard=True), L.MacroTextSpec('dbare', discard=True)],
            environments=[L.EnvironmentTextSpec('denv', discard=True)],
            specials=[L.SpecialsTextSpec('@@', '', discard=True),
                      L.SpecialsTextSpec('@!', discard=True)])
    elif route == 'legacy-defs':
        tdb.add_context_category('pv-decl', prepend=True, macros=[
            L.MacroDef('dmac', discard=True), L.MacroDef('dbare', discard=True)],
            environments=[L.EnvDef('denv', discard=True)],
            specials=[L.SpecialsTextSpec('@@', '', discard=True),
                      L.SpecialsTextSpec('@!', '', discard=True)])
    return wdb, tdb


DECLARED_DOCS = [
    'TXAQ \\dmac[DSCQ]{DSCQ $DSCQ$} TXBQ', 'TXAQ \\dbare{DSCQ \\textbf{DSCQ}} TXBQ',
    'TXAQ \\begin{denv}[DSCQ] DSCQ %DSCQ\n\\[ DSCQ \\] \\end{denv} TXBQ',
    'TXAQ @@{DSCQ} TXBQ', 'TXAQ @! TXBQ', '\\textbf{TXAQ \\dmac{DSCQ}} $x \\dbare{DSCQ}$ TXBQ',
    '\\begin{itemize}\\item TXAQ @@{\\emph{DSCQ}}\\item[\\dmac{DSCQ}] TXBQ\\end{itemize}',
]


def run_declared_one(case, res):
    import warnings
    from pylatexenc.latex2text import LatexNodes2Text
    from pylatexenc.latexwalker import LatexWalker
    doc, o, route = case['src'], case['opts'], case['route']
    res.case()
    try:
        with warnings.catch_warnings():
            warnings.simplefilter('ignore')
            wdb, tdb = declared_db(route)
            w = LatexWalker(doc, latex_context=wdb)
            out = LatexNodes2Text(latex_context=tdb, **o).nodelist_to_text(w.get_latex_nodes()[0])
    except BaseException as e:
        res.fail(exc_key(e), exc_detail(e) + ' on %r (%s)' % (doc, route), case)
        return
    flat = ''.join(out.split())
    if 'DSCQ' in flat and not (o['math_mode'] == 'verbatim' and '$' in doc):
        res.fail('c12:discarded-content-appears:' + route, '%r -> %r' % (doc, out), case)
    if 'TXAQ' not in flat or 'TXBQ' not in flat:
        res.fail('c12:visible-text-missing:around-discard', '%r -> %r' % (doc, out), case)
    res.nontriv_distinct()


def run_declared(k, tier, res):
    route = ('spec-objects', 'legacy-defs')[k]
    res.label('declared-route:' + route)
    for o in formula_opts(tier):
        for doc in DECLARED_DOCS:
            run_declared_one({'kind': 'declared', 'route': route, 'src': doc, 'opts': o}, res)
    res.exhaustive = True


def run_shard(shard, res):
    if shard[0] == 'mathenvs':
        run_mathenvs(shard[1], shard[2], res)
        return
    if shard[0] == 'declared':
        run_declared(shard[1], shard[2], res)
        return
    if shard[0] == 'names':
        check_names(shard[1], shard[2], res)
        res.exhaustive = True
        return
    _, n, seed, tier = shard
    opts = quick_opts() if tier == 'quick' else ALL_OPTS

    def one(d):
        check_doc(d[1], opts, res, {'ast': d[1]})
    hyp_run(docgrammar.document_strategy(('c12',), depth=3, max_size=5), one, n, seed)


def check_case(case, res):
    if case.get('kind') == 'formula':
        check_formula(case['src'], case['fsrc'], case['opts'], res, case)
        return
    if case.get('kind') == 'declared':
        run_declared_one(case, res)
        return
    if 'src' in case:
        res.case()
        out = l2t(case['opts']).latex_to_text(case['src'], latex_context=wctx())
        if 'CMTQ' in ''.join(out.split()):
            res.fail('c12:comment-leaks:after-known-name', '%r -> %r' % (case['src'], out), case)
        return
    check_doc(case['ast'], [case['opts']], res, {'ast': case['ast']})


def minimise(case, key):
    if 'ast' not in case:
        return case         # catalogue cases are minimal as written
    sig = docgrammar.SIGS['c12']

    def pred(items):
        r = Result()
        try:
            check_doc(docgrammar.normalise(list(items), sig), [case['opts']], r, {'ast': list(items)})
        except Exception:
            return False
        return key in r.failures
    items = ddmin(case['ast'], pred)
    return dict(case, ast=docgrammar.normalise(list(items), sig))
