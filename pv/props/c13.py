"""C13 -- encoded text is inert, strictly parseable LaTeX, ASCII-only when asked."""
import zlib
import unicodedata

from .. import soups, px
from ..alphabets import ACTIVE_ASCII
from ..engine import exc_key, exc_detail, ddmin, Result, hyp_run
from ..models import minitok
from ..treedump import walk, kind

ID = 'C13'
LEVEL = 'exploration'
RULE = ('bounded-exhaustive strings over the ten LaTeX-active ASCII characters plus a, 1, space, '
        'newline (length <= 3 quick / <= 4 thorough), every character of both built-in rule sets '
        'singly and between active neighbours, and Hypothesis mixtures with control / combining / '
        'astral / unassigned code points; x 5 protection schemes x {defaults, unicode-xml} x 5 '
        'unknown-character policies. Oracle: the encoder output parses strictly, its unescaped '
        'braces balance, its tree holds no comment node, no environment node and exactly as many '
        'math nodes as the replacement strings actually used contain; it is pure ASCII under '
        'replace/ignore/unihex; under fail a ValueError is raised iff some NFC character has no '
        'rule in the selected table and is outside 32..127 / \\n\\r\\t (computed from the tables). '
        'Inputs with unknown characters are also encoded with unknown_char_warning at its default. '
        'A quarter of the default-rule-set inputs also go through the module-level shorthand after '
        'a call with other options. '
        'Non-trivial = string with >= 2 active characters or an active character next to a '
        'replacement ending in a control word; distinct by (string, configuration).')
ASSUMPTIONS = ['the strict parse uses the default walker context',
               'expected math-node count is obtained by parsing each used replacement string on '
               'its own']
NSHARDS = 16
BASE = ACTIVE_ASCII + ['a', '1', ' ', '\n']
PROTS = ['none', 'braces', 'braces-all', 'braces-almost-all', 'braces-after-macro']
SETS = ['defaults', 'unicode-xml']
POLICIES = ['keep', 'replace', 'ignore', 'unihex', 'fail']

_T = {}
_ENC = {}
_REPL_MATH = {}


def tables():
    if not _T:
        # through the public function: the union of the dictionary rules of each built-in set
        from pylatexenc.latexencode import get_builtin_conversion_rules, RULE_DICT
        for name in ('defaults', 'unicode-xml'):
            t = {}
            for rule in get_builtin_conversion_rules(name):
                if rule.rule_type == RULE_DICT:
                    for k, v in rule.rule.items():
                        t.setdefault(k, v)
            _T[name] = t
    return _T


def encoder(cfg, warn=False):
    from pylatexenc.latexencode import UnicodeToLatexEncoder
    k = tuple(cfg) + (warn,)
    if k not in _ENC:
        kw = {} if warn else {'unknown_char_warning': False}     # warn: the option's default (on)
        _ENC[k] = UnicodeToLatexEncoder(conversion_rules=[cfg[0]],
                                        replacement_latex_protection=cfg[1],
                                        unknown_char_policy=cfg[2], **kw)
    return _ENC[k]


def repl_math_count(setname, o):
    k = (setname, o)
    if k not in _REPL_MATH:
        repl = tables()[setname][o]
        n = 0
        if '$' in repl or '\\(' in repl or '\\[' in repl:
            try:
                w, nl = px.parse(repl, None, tolerant=False, monitored=False)
                n = sum(1 for x in walk(nl) if kind(x) == 'math')
            except Exception:
                n = -1
        _REPL_MATH[k] = n
    return _REPL_MATH[k]


_SINGLE = {}


def single_parses(c, cfg):
    k = (c, cfg)
    if k not in _SINGLE:
        PE = px.parse_error_class()
        try:
            out = encoder(cfg).unicode_to_latex(c)
            px.parse(out, None, tolerant=False, monitored=False)
            _SINGLE[k] = True
        except PE:
            _SINGLE[k] = False
        except Exception:
            _SINGLE[k] = True       # not this root cause
    return _SINGLE[k]


def braces_balance(out):
    depth = 0
    for k, a, b in minitok.tokens(out):
        if k == 'ch' and out[a] == '{':
            depth += 1
        elif k == 'ch' and out[a] == '}':
            depth -= 1
            if depth < 0:
                return False
        elif k == 'comment':
            return None
    return depth == 0


def check(s, cfg, res, case):
    res.case()
    cfg = tuple(cfg)
    setname, prot, policy = cfg
    warn = bool(case.get('warn'))
    table = tables()[setname]
    nfc = unicodedata.normalize('NFC', s)
    unknown = [c for c in nfc if ord(c) not in table
               and not (32 <= ord(c) <= 127 or c in '\n\r\t')]
    # where the statement is silent the error / no-error verdict is not compared: DEL (is 127
    # "ASCII pass-through"?) and inputs that NFC normalisation changes
    undecided = (nfc != s) or any(ord(c) == 127 and ord(c) not in table for c in nfc)
    if unknown and not warn:
        # the same case with unknown_char_warning left at its default (the warning path runs
        # before the policy is applied; it must not change the outcome)
        res.label('unknown-char-with-default-warning')
        check(s, cfg, res, dict(case, warn=True))
    if setname == 'defaults' and not warn and 'via' not in case and \
            zlib.crc32(s.encode('utf-8', 'surrogatepass')) % 4 == 0:
        # the documented shorthand pylatexenc.latexencode.unicode_to_latex(s, **options) is the
        # same encoder; it is called after a call with other options in the same process
        res.label('via-module-level-shorthand')
        check(s, cfg, res, dict(case, via='helper'))
    try:
        if case.get('via') == 'helper':
            from pylatexenc import latexencode
            other = 'keep' if policy != 'keep' else 'replace'
            latexencode.unicode_to_latex('\u00e9 %', replacement_latex_protection='braces-all'
                                         if prot != 'braces-all' else 'none',
                                         unknown_char_policy=other, unknown_char_warning=False)
            out = latexencode.unicode_to_latex(s, replacement_latex_protection=prot,
                                               unknown_char_policy=policy,
                                               unknown_char_warning=False)
        else:
            out = encoder(cfg, warn).unicode_to_latex(s)
        raised = False
    except ValueError as e:
        out, raised = None, True
    except Exception as e:
        res.fail(exc_key(e), exc_detail(e), case)
        return
    if policy == 'fail':
        if undecided:
            res.label('fail-policy:verdict-not-compared')
            if raised:
                return
        elif raised != bool(unknown):
            res.fail('c13:fail-policy:%s' % ('missing-error' if unknown else 'spurious-error'),
                     'input %r: characters without rule %r, ValueError raised: %r'
                     % (s, unknown, raised), case)
            return
        if raised:
            res.label('fail-raised')
            return
    elif raised:
        res.fail('c13:ValueError-under-%s' % policy, 'input %r raised ValueError' % s, case)
        return
    if not isinstance(out, str):
        res.fail('c13:not-a-string', repr(type(out)), case)
        return
    if policy in ('replace', 'ignore', 'unihex') and not out.isascii():
        bad = [c for c in out if ord(c) > 127][:3]
        res.fail('c13:non-ascii-output:%s' % policy, 'input %r -> %r contains %r'
                 % (s, out, bad), case)
        return
    PE = px.parse_error_class()
    try:
        w, nl = px.parse(out, None, tolerant=False)
    except PE as e:
        what = (getattr(e, 'error_type_info', None) or {}).get('what', '?')
        # root cause: a character whose replacement does not parse even on its own?
        bad = [c for c in sorted(set(nfc)) if ord(c) in table and not single_parses(c, cfg)]
        if bad and len(nfc) > 1:
            for c in bad:
                single = {'s': c, 'cfg': list(cfg)}
                res.fail('c13:unparseable-replacement:%s:U+%04X' % (setname, ord(c)),
                         'the %s encoding %r of U+%04X does not parse in strict mode'
                         % (setname, table[ord(c)], ord(c)), single)
            rest = ''.join(c for c in nfc if c not in bad)
            if rest:
                check(rest, cfg, res, dict(case, s=rest))     # keep checking behind the finding
            return
        if bad:
            res.fail('c13:unparseable-replacement:%s:U+%04X' % (setname, ord(bad[0])),
                     'the %s encoding %r of U+%04X does not parse in strict mode (%s)'
                     % (setname, table[ord(bad[0])], ord(bad[0]), e.msg), case)
            return
        res.fail('c13:output-does-not-parse:%s:%s' % (prot, what),
                 'input %r -> %r: %s' % (s, out, e.msg), case)
        return
    except BaseException as e:
        res.fail(exc_key(e), exc_detail(e), case)
        return
    if check_lexical(s, nfc, out, cfg, res, case) is False:
        return
    bal = braces_balance(out)
    if bal is not True:
        res.fail('c13:unbalanced-or-comment:%s' % prot, 'input %r -> %r' % (s, out), case)
        return
    kinds = [kind(n) for n in walk(nl)]
    if 'comment' in kinds:
        res.fail('c13:comment-opened', 'input %r -> %r contains a comment' % (s, out), case)
        return
    if 'environment' in kinds:
        res.fail('c13:environment-opened', 'input %r -> %r contains an environment' % (s, out), case)
        return
    # math nodes that the encodings of the characters bring along (a table entry or the output of
    # the unknown-character policy may contain $...$); the input's own $ contributes none
    want_math = sum(single_math_count(c, cfg) for c in nfc if c != '$')
    got_math = kinds.count('math')
    if got_math != want_math:
        res.fail('c13:math-shift-opened', 'input %r -> %r has %d math node(s), the replacement '
                 'strings used contain %d' % (s, out, got_math, want_math), case)


BARE_ACTIVE = '~&#^_%$'
_SINGLE_OUT = {}


def lexical_profile(out):
    """(multiset of control-word names, counts of bare active characters and of the \\\\
    control symbol) -- from the independent mini tokenizer"""
    names, bare = {}, {}
    for k, a, b in minitok.tokens(out):
        if k == 'cw':
            n = out[a + 1:b]
            names[n] = names.get(n, 0) + 1
        elif k == 'ch' and out[a] in BARE_ACTIVE:
            bare[out[a]] = bare.get(out[a], 0) + 1
        elif k == 'comment':
            bare['%'] = bare.get('%', 0) + 1
        elif k == 'cs' and out[a:b] == '\\\\':
            bare['\\\\'] = bare.get('\\\\', 0) + 1
        elif k in ('begin', 'end'):
            names[k] = names.get(k, 0) + 1
    return names, bare


def single_profile(c, cfg):
    k = (c, cfg)
    if k not in _SINGLE_OUT:
        try:
            _SINGLE_OUT[k] = lexical_profile(encoder(cfg).unicode_to_latex(c))
        except Exception:
            _SINGLE_OUT[k] = None
    return _SINGLE_OUT[k]


_SINGLE_MATH = {}


def single_math_count(c, cfg):
    k = (c, cfg)
    if k not in _SINGLE_MATH:
        n = 0
        try:
            o = encoder(cfg).unicode_to_latex(c)
            if '$' in o or '\\(' in o or '\\[' in o:
                w, nl = px.parse(o, None, tolerant=False, monitored=False)
                n = sum(1 for x in walk(nl) if kind(x) == 'math')
        except Exception:
            n = 0
        _SINGLE_MATH[k] = n
    return _SINGLE_MATH[k]


def check_lexical(s, nfc, out, cfg, res, case):
    """the input's own active characters are neutralised: the output holds no bare active
    character, comment or line-break macro beyond what the encodings of its *non-active*
    characters (taken one at a time) contribute.  (Which control words appear is not compared:
    with protection 'none' a replacement may fuse with a following letter by design, and C08
    covers content preservation for the protecting schemes.)"""
    names, bare = lexical_profile(out)
    want_names, allowed = {}, {}
    for c in nfc:
        prof = single_profile(c, cfg)
        if prof is None:
            return
        for n, v in prof[0].items():
            want_names[n] = want_names.get(n, 0) + v
        for x, v in prof[1].items():
            # an active character's own replacement may use *other* active characters
            # (e.g. ~ -> $\sim$); only the character itself must be gone
            if c not in ACTIVE_ASCII or (x != c and not (c == '\\' and x == '\\\\')):
                allowed[x] = allowed.get(x, 0) + v
    for x, v in sorted(bare.items()):
        if v > allowed.get(x, 0):
            res.fail('c13:active-character-not-neutralised:%s' % ('line-break-macro' if x == '\\\\'
                                                                   else 'U+%04X' % ord(x)),
                     'input %r -> %r holds %d bare %r, the encodings of its non-active characters '
                     'account for %d' % (s, out, v, x, allowed.get(x, 0)), case)
            return False
    return True


def configs(tier):
    return [(s, p, pol) for s in SETS for p in PROTS for pol in POLICIES]


LEGACY_DICT_INPUTS = ['50% of $x$', 'a_b^c & {d} #1 ~e \\f', 'caf\u00e9 \u20ac5', '%', '$', '{', '}}', '\\',
                      '\u00e9%\n$', 'x\u221e{']


def check_legacy_dict_history(res):
    """pylatexenc-1 style customisation: the module-level dictionary latexencode.utf82latex is
    edited (that changes what the old utf8tolatex() does).  The encoders built from the built-in
    rule sets afterwards still neutralise every active character: the dictionary is a copy (the
    source says why: "so that the user can modify the module-level utf82latex dict without
    influencing the behavior of the new unicode_to_latex() routines")"""
    from pylatexenc import latexencode
    tables()
    d = latexencode.utf82latex
    for ch in '$%\\{}&#_^~':
        try:
            del d[ord(ch)]
        except KeyError:
            pass
    d[0xE9] = '\u00e9'
    d[0x20AC] = '\\euro'
    _ENC.clear()
    try:
        for s in LEGACY_DICT_INPUTS:
            for cfg in configs(None):
                check(s, cfg, res, {'s': s, 'cfg': list(cfg), 'history': 'legacy-dict'})
            res.nontriv_distinct()
    finally:
        _ENC.clear()
    res.label('after-legacy-dict-customisation')


def plan(tier, seed):
    L, nmix = (3, 4800) if tier == 'quick' else (4, 200000)
    shards = [('base', L, k) for k in range(NSHARDS)]
    shards += [('singles', k) for k in range(NSHARDS)]
    shards += [('mix', nmix // NSHARDS, seed * 1000 + k) for k in range(NSHARDS)]
    shards += [('legacydict',)]
    return {'shards': shards, 'bounds': {'base_len': L, 'base_alphabet': len(BASE),
                                         'configurations': len(configs(tier)), 'mixtures': nmix},
            'required_classes': ['base', 'single', 'mixture', 'fail-raised', 'active-pair',
                                 'boundary-code-point', 'nfc-changes-input',
                                 'after-legacy-dict-customisation']}


def run_shard(shard, res):
    kind_ = shard[0]
    cfgs = configs(None)
    if kind_ == 'legacydict':
        check_legacy_dict_history(res)
        return
    if kind_ == 'base':
        _, L, k = shard
        for toks in soups.enum_tokens(BASE, L, k, NSHARDS):
            s = ''.join(toks)
            nact = sum(1 for t in toks if t in ACTIVE_ASCII)
            for cfg in cfgs:
                check(s, cfg, res, {'s': s, 'cfg': list(cfg)})
                if nact >= 2:
                    res.nontriv_distinct()
            res.label('base')
            if nact >= 2:
                res.label('active-pair', {'s': s})
        res.exhaustive = True
    elif kind_ == 'singles':
        _, k = shard
        t = tables()
        # every built-in character, plus the boundaries of the ASCII pass-through range, a
        # decomposed pair and a Hangul jamo sequence (NFC changes the string), a private-use, an
        # unassigned and a non-character code point
        BOUNDARY = [0, 9, 10, 13, 0x1f, 0x20, 0x7e, 0x7f, 0x80, 0x9f, 0xe000, 0x378, 0xffff, 0x10ffff]
        chars = sorted(set(t['defaults']) | set(t['unicode-xml']) | set(BOUNDARY))
        if k == 0:
            for s in ('e\u0301', 'A\u030a', '\u1100\u1161', '\u212b', '\u2126x'):
                for cfg in cfgs:
                    check(s, cfg, res, {'s': s, 'cfg': list(cfg)})
            res.label('nfc-changes-input')
        for i, o in enumerate(chars):
            if i % NSHARDS != k:
                continue
            if o in BOUNDARY:
                res.label('boundary-code-point')
            for tpl in ('%s', 'a%sb', '\\%s{', '%s%%', '%s %s', '$%s}'):
                s = tpl.replace('%%', '\0').replace('%s', chr(o)).replace('\0', '%')
                for cfg in cfgs:
                    if cfg[2] in ('ignore',) and tpl != '%s':
                        continue
                    check(s, cfg, res, {'s': s, 'cfg': list(cfg)})
                    res.nontriv_distinct()
            res.label('single')
    else:
        _, n, seed = shard
        from hypothesis import strategies as st
        t = tables()
        known = [chr(o) for o in sorted(set(t['defaults']) | set(t['unicode-xml']))]
        ch = st.one_of(st.sampled_from(ACTIVE_ASCII), st.sampled_from(known),
                       st.sampled_from(['a', ' ', '\n', '1', '-', '`', "'"]),
                       st.characters(blacklist_categories=('Cs',)))
        strat = st.tuples(st.lists(ch, min_size=1, max_size=10).map(''.join),
                          st.sampled_from(cfgs))

        def one(x):
            s, cfg = x
            check(s, cfg, res, {'s': s, 'cfg': list(cfg)})
            res.label('mixture')
            res.nontriv((s, cfg))
        hyp_run(strat, one, n, seed)


def check_case(case, res):
    if case.get('history') == 'legacy-dict':
        check_legacy_dict_history(res)
        return
    check(case['s'], tuple(case['cfg']), res, case)


def minimise(case, key):
    if case.get('history'):
        return case

    def pred(t):
        r = Result()
        check_case(dict(case, s=''.join(t)), r)
        return key in r.failures
    return dict(case, s=''.join(ddmin(list(case['s']), pred)))
