"""C15 -- \\input never reads outside the configured directory in strict mode."""
import builtins
import os
import shutil
import tempfile

from ..engine import exc_key, exc_detail, Result, hyp_run

ID = 'C15'
LEVEL = 'exploration'
RULE = ('Hypothesis builds directory layouts in a private temporary directory: input directory '
        'tex/ with files (with and without .tex/.latex extension, in a subdirectory), sibling '
        'directories tex2/ and texts/ whose names extend the base name, an outside directory, and '
        'a drawn subset of symbolic links (file and directory links inside->outside, '
        'inside->inside, outside->inside, links that exist only under the implicit-extension name, '
        'a link naming the input directory itself); every file holds a unique marker. Requested '
        'names are sequences of up to 4 path components from {file names, .., ., sub, ../tex2, '
        '../texts, ../out, link names, absolute prefixes} with/without extension. Oracle: an '
        'independent resolver (realpath + commonpath): a returned marker belonging to a file whose '
        'real path is outside realpath(dir) is a violation; a name whose documented lookup '
        '(exact, +.tex, +.latex) designates a regular file inside must return its marker; with no '
        'directory set the result is empty and open() is never called. Checked through '
        'read_input_file(), latex_to_text(\\input{..}) and \\include. Every layout is also asked for the including file through an outside link (its nested names '
        'exist only outside). '
        'Non-trivial = name leaves '
        'the directory lexically or through a link, or needs the extension fallback; distinct by '
        '(layout, name).')
ASSUMPTIONS = [
    'POSIX file system with symbolic links; markers are unique words',
    'the positive direction is only demanded where the lookup order is unambiguous (an existing '
    'directory named like the request is not followed by an extension fallback demand)',
]
NSHARDS = 16

FILES_IN = {'a.tex': 'MRKINA', 'c': 'MRKINC', 'd.latex': 'MRKIND', 'e.tex': 'MRKINETEX',
            'e.latex': 'MRKINELATEX', 'sub/b.tex': 'MRKINB', 'sub/g': 'MRKING',
            # files that themselves include others (resolved against the input directory, not
            # against the including file)
            # (q and r exist only outside, next to the outside link 'lnk' that points at n.tex)
            'n.tex': 'MRKINN \\input{../out/q} \\input{a} \\input{sub/n2} \\input{q} \\input{r}',
            'sub/n2.tex': 'MRKINZ \\input{../../out/q} \\input{../top} \\include{../tex2/o}'}
FILES_OUT = {'tex2/o.tex': 'MRKOUTO', 'tex2/a.tex': 'MRKOUTA2', 'texts/p.tex': 'MRKOUTP',
             'out/q.tex': 'MRKOUTQ', 'out/r': 'MRKOUTR', 'out/a.tex': 'MRKOUTA', 'top.tex': 'MRKOUTTOP',
             # siblings that differ from the input directory's name only by case
             'TEX/s.tex': 'MRKOUTS', 'Tex2/t.tex': 'MRKOUTT', 'TEX/a.tex': 'MRKOUTU',
             # outside files named like the input directory itself plus an extension (a name that
             # resolves to the directory, with the extension fallback applied to it)
             'tex.tex': 'MRKOUTDIRT', 'texlink.latex': 'MRKOUTDIRL'}
# name -> (location relative to base, target)
LINKS = {
    'lf': ('tex/lf.tex', '../out/q.tex'),
    'ld': ('tex/ld', '../out'),
    'li': ('tex/li.tex', 'a.tex'),
    'lsub': ('tex/lsub', 'sub'),
    'x': ('tex/x.tex', '../out/q.tex'),
    'y': ('tex/y.latex', '../out/r'),
    'back': ('out/back', '../tex'),
    'l2': ('tex/l2', '../tex2'),
    'lup': ('tex/sub/up', '../..'),
    'lnk': ('out/lnk.tex', '../tex/n.tex'),     # outside name for an inside, including file
    'lcase': ('tex/lcase', '../TEX'),
    'lsubtex': ('tex/sub.tex', '../out/q.tex'),     # a link named like an inside directory + .tex
}
COMPONENTS = ['a', 'a.tex', 'c', 'd', 'd.latex', 'e', 'b', 'b.tex', 'g', 'q', 'q.tex', 'r', 'o',
              'o.tex', 'p', 'x', 'x.tex', 'y', 'lf', 'lf.tex', 'li', 'top', 'top.tex',
              '..', '..', '.', 'sub', 'out', 'tex', 'tex2', 'texts', 'ld', 'lsub', 'back', 'l2',
              'up', 'nonexistent', 'n', 'n.tex', 'n2', 'TEX', 'Tex2', 's', 't', 'lnk']


def layout_strategy():
    from hypothesis import strategies as st
    one = st.tuples(st.lists(st.sampled_from(COMPONENTS), min_size=1, max_size=4),
                    st.sampled_from([None] * 8 + ['tex', 'base']))
    names = st.lists(one, min_size=8, max_size=40)
    return st.fixed_dictionaries({
        'links': st.lists(st.sampled_from(sorted(LINKS)), unique=True, max_size=len(LINKS)),
        'dir_via_link': st.booleans(),
        'names': names,
    })


def _tmp_parent():
    """a parent directory whose path holds no character that is special inside \\input{..}
    (the system temp directory may: ~, --, %, #, blanks)"""
    import re
    for cand in (tempfile.gettempdir(), os.path.join(os.path.dirname(os.path.dirname(
            os.path.dirname(os.path.abspath(__file__)))), 'out', 'c15tmp')):
        real = os.path.realpath(cand)
        if re.fullmatch(r'[A-Za-z0-9_./]+', real) and '--' not in real:
            try:
                os.makedirs(real, exist_ok=True)
                return real
            except OSError:
                pass
    return None


def build(layout):
    base = tempfile.mkdtemp(prefix='pvc15-', dir=_tmp_parent())
    real = os.path.realpath(base)
    for rel, marker in FILES_IN.items():
        p = os.path.join(real, 'tex', rel)
        os.makedirs(os.path.dirname(p), exist_ok=True)
        open(p, 'w').write(marker + '\n')
    for rel, marker in FILES_OUT.items():
        p = os.path.join(real, rel)
        os.makedirs(os.path.dirname(p), exist_ok=True)
        open(p, 'w').write(marker + '\n')
    for ln in layout['links']:
        loc, target = LINKS[ln]
        os.symlink(target, os.path.join(real, loc))
    d = os.path.join(real, 'tex')
    if layout['dir_via_link']:
        os.symlink('tex', os.path.join(real, 'texlink'))
        d = os.path.join(real, 'texlink')
    markers = {}
    for rel, marker in FILES_IN.items():
        markers[marker.split()[0]] = os.path.join(real, 'tex', rel)
    for rel, marker in FILES_OUT.items():
        markers[marker.split()[0]] = os.path.join(real, rel)
    return real, d, markers


def inside(path, d):
    rd = os.path.realpath(d)
    rp = os.path.realpath(path)
    try:
        return os.path.commonpath([rd, rp]) == rd
    except ValueError:
        return False


def designated(d, name):
    """file the documented lookup order designates, or None when there is none / ambiguous"""
    p = os.path.join(d, name)
    if os.path.lexists(p) or os.path.exists(p):
        return p if os.path.isfile(p) else None
    cands = [p + ext for ext in ('.tex', '.latex')
             if os.path.lexists(p + ext) or os.path.exists(p + ext)]
    if len(cands) == 1:
        return cands[0] if os.path.isfile(cands[0]) else None
    return None      # none, or both extensions exist (which one wins is not stated)


def vector(d, name, target):
    rd = os.path.realpath(d)
    rt = os.path.realpath(target)
    if rt.startswith(rd):
        return 'sibling-prefix'
    if os.path.isabs(name):
        return 'absolute'
    lex = os.path.normpath(os.path.join(rd, name))
    if lex == rd or lex.startswith(rd + os.sep):
        if not os.path.lexists(os.path.join(d, name)):
            return 'extension-only-link'
        return 'symlink'
    return 'dotdot'


def check_name(d, name, markers, res, case, via, l2t=None):
    from pylatexenc.latex2text import LatexNodes2Text
    res.case()
    if l2t is None:
        # the ways strict mode gets switched on: explicitly, by the setter's default, by the
        # constructor's default (attribute assignment), with a truthy non-bool
        l2t = LatexNodes2Text()
        if len(name) % 2:
            l2t.set_tex_input_directory(d, strict_input=True)
        else:
            l2t.set_tex_input_directory(d)      # strict_input=True is the documented default
    try:
        if via == 'read_input_file':
            out = l2t.read_input_file(name)
        else:
            out = l2t.latex_to_text('X\\%s{%s}Y' % (via, name))
    except (IOError, OSError, ValueError) as e:
        # read_input_file() "should return a string ... (or generate a warning or raise an
        # error)": refusing a name by raising is no content returned
        res.label('refused-by-raising')
        out = ''
    except Exception as e:
        res.fail(exc_key(e), exc_detail(e) + ' for name %r' % name, case)
        return
    if not isinstance(out, str):
        res.fail('c15:not-a-string', repr(out), case)
        return
    got = [m for m in markers if m in out.split() or (via != 'read_input_file' and m in out)]
    # longest marker wins when one marker is a prefix of another (MRKOUTA / MRKOUTA2)
    got = [m for m in got if not any(o != m and o.startswith(m) and o in out for o in got)]
    for m in got:
        if not inside(markers[m], d):
            res.fail('c15:escape:%s' % vector(d, name, markers[m]),
                     'name %r returned the content of %s which is outside %s (via %s)'
                     % (name, os.path.realpath(markers[m]), os.path.realpath(d), via), case)
    want = designated(d, name)
    lex_leaves = not (os.path.normpath(os.path.join('/R', name)).startswith('/R/'))
    through_link = want is not None and os.path.realpath(want) != os.path.normpath(
        os.path.join(os.path.realpath(d), name))
    nontriv = lex_leaves or os.path.isabs(name) or through_link or \
        (want is not None and not os.path.lexists(os.path.join(d, name)))
    if via == 'include' and os.path.splitext(name)[1]:
        want = None         # (LaTeX's \include appends .tex to whatever is given)
    if want is not None and inside(want, d):
        res.label('outcome:inside-file-designated')
        wm = [m for m, p in markers.items() if os.path.realpath(p) == os.path.realpath(want)]
        if wm and wm[0] not in got:
            res.fail('c15:inside-file-not-read:%s' % ('via-link' if through_link else
                                                      ('fallback' if not os.path.lexists(
                                                          os.path.join(d, name)) else 'exact')),
                     'name %r designates %s inside the directory but its content was not '
                     'returned (got %r, via %s)' % (name, os.path.realpath(want), out[:60], via),
                     case)
    elif want is not None:
        res.label('outcome:outside-file-designated', case)
    else:
        res.label('outcome:nothing-designated')
    return nontriv


def make_name(real, comps, absmode):
    name = '/'.join(comps)
    if absmode == 'tex':
        return os.path.join(real, 'tex', name)
    if absmode == 'base':
        return os.path.join(real, name)
    return name


# names every layout is asked for besides the drawn ones: the including file reached through an
# outside link (legitimate when the link is there: it resolves inside), directly, and via sub/..
FIXED_NAMES = [(['..', 'out', 'lnk'], None), (['..', 'out', 'lnk.tex'], None),
               (['out', 'lnk.tex'], 'base'), (['n'], None), (['sub', '..', 'n.tex'], None),
               (['sub', 'n2'], None), (['.'], None), ([''], None), (['sub', '..'], None),
               (['tex'], 'base'), (['texlink'], 'base'), (['sub'], None), (['..', 'tex'], None)]


def check_layout(layout, res):
    real, d, markers = build(layout)
    try:
        allnames = [(list(c), a) for c, a in layout['names']]
        if len(allnames) > 1 or not layout.get('replay'):
            allnames += [x for x in FIXED_NAMES if x not in allnames]
        for i, (comps, absmode) in enumerate(allnames):
            name = make_name(real, comps, absmode)
            for via in ('read_input_file', 'input', 'include'):
                if via != 'read_input_file' and (i % 3) and (list(comps), absmode) not in FIXED_NAMES:
                    continue
                case = {'layout': {'links': layout['links'], 'dir_via_link': layout['dir_via_link'],
                                   'names': [[list(comps), absmode]]},
                        'via': via}
                nt = check_name(d, name, markers, res, case, via)
                if nt:
                    res.nontriv((sorted(layout['links']), layout['dir_via_link'], name, via))
                    vec = 'absolute' if os.path.isabs(name) else (
                        'dotdot' if '..' in comps else 'link-or-fallback')
                    res.label('vector:' + vec)
        # history on ONE converter object: the same name is first requested with strict_input
        # off (no claim about that result), then with strict_input on -- the strict answer must
        # not depend on what was read before
        from pylatexenc.latex2text import LatexNodes2Text
        shared = LatexNodes2Text()
        for i, (comps, absmode) in enumerate(layout['names'][:10]):
            name = make_name(real, comps, absmode)
            try:
                shared.set_tex_input_directory(d, strict_input=False)
                shared.read_input_file(name)
                shared.latex_to_text('\\input{%s}' % name)
                shared.set_tex_input_directory(d, strict_input=True)
            except Exception as e:
                res.fail(exc_key(e), exc_detail(e), {'layout': {'links': layout['links'],
                         'dir_via_link': layout['dir_via_link'], 'names': [[list(comps), absmode]]},
                         'via': 'history'})
                continue
            case = {'layout': {'links': layout['links'], 'dir_via_link': layout['dir_via_link'],
                               'names': [[list(comps), absmode]]}, 'via': 'history',
                    'how': 'set' if i % 2 else 'attr'}
            check_name(d, name, markers, res, case, 'read_input_file', l2t=shared)
            check_name(d, name, markers, res, case, 'input', l2t=shared)
            res.label('history:strict-after-nonstrict')
        more_histories(real, d, markers, layout, res)
        for ln in layout['links']:
            res.label('link:' + ln)
        if layout['dir_via_link']:
            res.label('input-dir-is-a-link')
    finally:
        shutil.rmtree(real, ignore_errors=True)


def more_histories(real, d, markers, layout, res):
    """histories on one converter: (a) strict reads under another directory first, then the
    directory is changed (setter / attribute); (b) a file inside is read, then replaced by a link
    to the outside, then read again; (c) the directory spelled in other ways"""
    from pylatexenc.latex2text import LatexNodes2Text
    lay = {'links': layout['links'], 'dir_via_link': layout['dir_via_link'], 'names': []}
    out_dir = os.path.join(real, 'out')
    for how in ('setter',):
        conv = LatexNodes2Text()
        try:
            conv.set_tex_input_directory(out_dir, strict_input=True)
            conv.read_input_file('q.tex')
            conv.latex_to_text('\\input{q}\\input{r}')
            conv.set_tex_input_directory(d, strict_input=True)
        except Exception as e:
            res.fail(exc_key(e), exc_detail(e), {'layout': lay, 'via': 'history:switch'})
            continue
        for name in ('q.tex', 'q', 'r', 'a.tex', '../out/q.tex'):
            case = {'layout': dict(lay, names=[[name.split('/'), None]]),
                    'via': 'history:switch', 'how': how}
            check_name(d, name, markers, res, case, 'read_input_file', l2t=conv)
            check_name(d, name, markers, res, case, 'input', l2t=conv)
        res.label('history:directory-switched')
    # (a') two converter objects in one process: the first is configured on the input directory
    # (strict); afterwards a second one is configured on an outside directory, once strict, once
    # not, and used; the first one's answers are its own
    for other_strict in (True, False):
        conv = LatexNodes2Text()
        try:
            conv.set_tex_input_directory(d, strict_input=True)
            other = LatexNodes2Text()
            other.set_tex_input_directory(out_dir, strict_input=other_strict)
            other.read_input_file('q.tex')
            other.latex_to_text('\\input{q}')
            third = LatexNodes2Text()        # (never configured at all)
            third.latex_to_text('\\input{q}')
        except (IOError, OSError):
            pass
        except Exception as e:
            res.fail(exc_key(e), exc_detail(e), {'layout': lay, 'via': 'history:other-converter'})
            continue
        for name in ('q.tex', 'q', 'r', 'a.tex', 'a', '../out/q.tex', os.path.join(real, 'out', 'q.tex')):
            case = {'layout': dict(lay, names=[[name.split('/'), None]]),
                    'via': 'history:other-converter', 'how': other_strict}
            check_name(d, name, markers, res, case, 'read_input_file', l2t=conv)
            check_name(d, name, markers, res, case, 'input', l2t=conv)
        res.label('history:other-converter-configured')
    # (b)
    conv = LatexNodes2Text()
    conv.set_tex_input_directory(d, strict_input=True)
    sw = os.path.join(real, 'tex', 'sw.tex')
    try:
        open(sw, 'w').write('MRKINA again\n')
        for name in ('sw.tex', 'sw'):
            conv.read_input_file(name)
            conv.latex_to_text('\\input{%s}' % name)
        os.remove(sw)
        os.symlink('../out/q.tex', sw)
        for name in ('sw.tex', 'sw'):
            case = {'layout': dict(lay, names=[[[name], None]]), 'via': 'history:file-replaced'}
            check_name(d, name, markers, res, case, 'read_input_file', l2t=conv)
            check_name(d, name, markers, res, case, 'input', l2t=conv)
        res.label('history:file-replaced-by-link')
    except Exception as e:
        res.fail(exc_key(e), exc_detail(e), {'layout': lay, 'via': 'history:file-replaced'})
    finally:
        if os.path.lexists(sw):
            os.remove(sw)
    # (c)
    cwd = os.getcwd()
    try:
        os.chdir(real)
        # a directory reached through a directory link and '..': lexically that collapses to the
        # link's own directory, really it is the parent of the link's target
        deep = os.path.join(real, 'out', 'deep')
        if not os.path.lexists(deep):
            os.symlink('../tex/sub', deep)
        spellings = [os.path.join(deep, '..'), os.path.join('out', 'deep', '..'),
                     d + os.sep, os.path.join(d, '..', os.path.basename(d)),
                     os.path.relpath(d, real), os.path.relpath(d, real) + os.sep,
                     os.path.join('.', os.path.relpath(d, real))]
        for sp in spellings:
            conv = LatexNodes2Text()
            conv.set_tex_input_directory(sp, strict_input=True)
            for name in ('a.tex', 'a', 'q.tex', 'q', 'r', '../out/q.tex', '../out/q',
                         'sub/../../out/q.tex',
                         os.path.join(real, 'out', 'q.tex'), 'sub/b', '../tex2/o', '../TEX/s'):
                case = {'layout': dict(lay, names=[[name.split('/'), None]]),
                        'via': 'dir-spelling', 'spelling': sp}
                check_name(sp, name, markers, res, case, 'read_input_file', l2t=conv)
                check_name(sp, name, markers, res, case, 'input', l2t=conv)
            res.label('directory-spelling')
    except Exception as e:
        res.fail(exc_key(e), exc_detail(e), {'layout': lay, 'via': 'dir-spelling'})
    finally:
        os.chdir(cwd)


def check_no_directory(res):
    """no directory set: '' and no file access"""
    from pylatexenc.latex2text import LatexNodes2Text
    real, d, markers = build({'links': [], 'dir_via_link': False})
    opened = []
    orig = builtins.open

    def spy(*a, **kw):
        f = a[0] if a else kw.get('file')
        try:
            if os.path.realpath(str(f)).startswith(real):     # only the layout's own files
                opened.append(f)
        except Exception:
            pass
        return orig(*a, **kw)
    try:
        builtins.open = spy
        l2t = LatexNodes2Text()
        for name in ('a.tex', os.path.join(real, 'tex', 'a.tex'), '../out/q.tex', 'c'):
            res.case()
            out1 = l2t.read_input_file(name)
            out2 = l2t.latex_to_text('X\\input{%s}Y' % name)
            res.label('no-directory-set')
            if out1 != '' or any(m in out2 for m in markers) or opened:
                res.fail('c15:no-directory-set-reads',
                         'without an input directory: read_input_file(%r)=%r, latex_to_text=%r, '
                         'opened=%r' % (name, out1, out2, opened), {'nodir': name})
    finally:
        builtins.open = orig
        shutil.rmtree(real, ignore_errors=True)


def plan(tier, seed):
    n = 640 if tier == 'quick' else 12800
    shards = [('layouts', n // NSHARDS, seed * 1000 + k) for k in range(NSHARDS)] + [('nodir',)]
    return {'shards': shards, 'bounds': {'layouts': n, 'names_per_layout': '8..40',
                                         'max_components': 4},
            'required_classes': ['vector:dotdot', 'vector:absolute', 'vector:link-or-fallback',
                                 'outcome:inside-file-designated',
                                 'outcome:outside-file-designated', 'input-dir-is-a-link',
                                 'no-directory-set', 'history:strict-after-nonstrict',
                                 'history:directory-switched', 'history:file-replaced-by-link',
                                 'directory-spelling'] + ['link:' + l for l in LINKS]}


def run_shard(shard, res):
    if shard[0] == 'nodir':
        check_no_directory(res)
        return
    _, n, seed = shard
    hyp_run(layout_strategy(), lambda lay: check_layout(lay, res), n, seed)


def check_case(case, res):
    if 'nodir' in case:
        check_no_directory(res)
        return
    lay = case['layout']
    real, d, markers = build(lay)
    try:
        comps, absmode = lay['names'][0]
        name = make_name(real, comps, absmode)
        if case['via'].startswith(('history:', 'dir-spelling')):
            r2 = Result()
            more_histories(real, d, markers, dict(lay, names=[]), r2)
            for key, l in r2.failures.items():
                for f in l:
                    if f['case'].get('via') == case['via']:
                        res.fail(key, f['detail'], case)
            res.case()
        elif case['via'] == 'history':
            from pylatexenc.latex2text import LatexNodes2Text
            shared = LatexNodes2Text()
            shared.set_tex_input_directory(d, strict_input=False)
            shared.read_input_file(name)
            shared.latex_to_text('\\input{%s}' % name)
            shared.set_tex_input_directory(d, strict_input=True)
            check_name(d, name, markers, res, case, 'read_input_file', l2t=shared)
            check_name(d, name, markers, res, case, 'input', l2t=shared)
        else:
            check_name(d, name, markers, res, case, case['via'])
    finally:
        shutil.rmtree(real, ignore_errors=True)


def minimise(case, key):
    if 'nodir' in case:
        return case
    lay = dict(case['layout'])
    links = list(lay['links'])
    for ln in list(links):
        trial = [x for x in links if x != ln]
        r = Result()
        check_case(dict(case, layout=dict(lay, links=trial)), r)
        if key in r.failures:
            links = trial
    lay['links'] = links
    if lay['dir_via_link']:
        r = Result()
        check_case(dict(case, layout=dict(lay, dir_via_link=False)), r)
        if key in r.failures:
            lay['dir_via_link'] = False
    return dict(case, layout=lay)
