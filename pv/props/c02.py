"""C02 -- parsing recovers the structure a well-formed document was written with."""
from .. import px, contexts, docgrammar
from ..engine import exc_key, exc_detail, ddmin, Result, hyp_run
from ..treedump import kind

ID = 'C02'
LEVEL = 'exploration'
RULE = ('Hypothesis derivations of the document grammar (text, groups, macro calls with every mix '
        'of star / bracket / mandatory arguments given as groups or single tokens, t<c> markers, '
        'r<..>/d<..> delimited and v verbatim arguments, environments with arguments, inline and '
        'display math, comments, specials, paragraph breaks, \\verb and verbatim) under the default '
        'context and under every-argument-type custom contexts (arguments declared as argument '
        'strings and as LatexArgumentSpec objects, with and without an unknown-macro fallback), '
        'with whitespace / comments drawn before arguments. Oracle: the strict parse, normalised '
        'only as the property allows (whitespace-only chars dropped, adjacent chars merged, a '
        'one-element list argument = its element), equals the structure derived from the AST: '
        'nesting, kinds, names, delimiters, display types and, per declared slot, the written '
        'argument or None. Non-trivial = document with a macro/environment that has >= 1 declared '
        'slot, or math, or specials; distinct by source string.')
ASSUMPTIONS = ['generator construction rules of DESIGN 3.3 (canonical form, LaTeX-unambiguous '
               'adjacency) are preconditions, enforced by construction in docgrammar.normalise']
NSHARDS = 16
CTXS = ('default', 'every', 'every-strings', 'every-nounknown')

_CTX = {}


def ctx(name):
    if name not in _CTX:
        _CTX[name] = contexts.build(name)
    return _CTX[name]


def nows(s):
    return ''.join(s.split())


def actual_list(nodes, in_arg=False):
    out = []
    for n in nodes:
        if n is None:
            out.append(['none'])
            continue
        out.append(actual(n))
    return docgrammar._merge_chars(out)


def exact_chars(a):
    """verbatim material is compared character for character (everything else modulo blanks)"""
    k = kind(a)
    if k == 'chars':
        return ['vchars', a.chars]
    if k == 'group':
        d = a.delimiters
        items = a.nodelist.nodelist if a.nodelist is not None else []
        return ['group', d[0], d[1], [exact_chars(x) for x in items]]
    if k == 'list':
        items = [exact_chars(x) for x in a.nodelist]
        return items[0] if len(items) == 1 else ['list', items]
    return actual(a)


_CUR = {'sig': None}


def verbatim_flags(n):
    """which argument slots hold verbatim material: from the signature table the document was
    written with (not from attributes of the library's objects)"""
    nad = n.nodeargd
    if nad is None:
        return []
    nargs = len(nad.argnlist or [])
    sig = docgrammar.SIGS.get(_CUR['sig']) or {}
    if kind(n) == 'macro':
        if n.macroname == 'verb' and sig.get('verb'):
            return [True] * nargs
        slots = (sig.get('macros') or {}).get(n.macroname) or []
    elif kind(n) == 'environment':
        if n.environmentname == 'verbatim' and sig.get('verb'):
            return [True] * nargs
        slots = ((sig.get('envs') or {}).get(n.environmentname) or ([], None))[0]
    else:
        slots = []
    return [i < len(slots) and slots[i].get('k') == 'v' for i in range(nargs)]


def actual_arg(a, exact=False):
    if a is None:
        return None
    if exact:
        return exact_chars(a)
    k = kind(a)
    if k == 'list':
        items = actual_list(a.nodelist)
        if len(items) == 1:
            return items[0]
        if len(items) == 0:
            return ['chars', '']
        return ['list', items]
    return actual(a)


def actual(n):
    k = kind(n)
    if k == 'chars':
        return ['chars', nows(n.chars)]
    if k == 'comment':
        return ['comment', n.comment]
    if k == 'group':
        d = n.delimiters
        return ['group', d[0], d[1], actual_list(n.nodelist.nodelist if n.nodelist is not None
                                                 else [])]
    if k == 'math':
        d = n.delimiters
        return ['math', d[0], d[1], n.displaytype, actual_list(n.nodelist.nodelist)]
    if k == 'specials':
        if n.specials_chars == '\n\n':
            return ['par']
        return ['specials', n.specials_chars]
    if k == 'macro':
        argn = n.nodeargd.argnlist if n.nodeargd is not None else ['<no nodeargd>']
        vf = verbatim_flags(n)
        return ['macro', n.macroname, [actual_arg(a, i < len(vf) and vf[i])
                                       for i, a in enumerate(argn)]]
    if k == 'environment':
        argn = n.nodeargd.argnlist if n.nodeargd is not None else ['<no nodeargd>']
        body = n.nodelist.nodelist if n.nodelist is not None else []
        vf = verbatim_flags(n)
        return ['env', n.environmentname, [actual_arg(a, i < len(vf) and vf[i])
                                           for i, a in enumerate(argn)], actual_list(body)]
    return ['unknown', k]


def first_diff(a, b, path=''):
    if type(a) != type(b):
        return path, a, b
    if isinstance(a, list):
        if a and b and isinstance(a[0], str) and isinstance(b[0], str) and a[0] != b[0]:
            return path, a, b
        for i, (x, y) in enumerate(zip(a, b)):
            d = first_diff(x, y, path + '/%s' % (a[0] if a and isinstance(a[0], str) and i else i))
            if d:
                return d
        if len(a) != len(b):
            return path + '/len', a, b
        return None
    if a != b:
        return path, a, b
    return None


def features(struct, feats):
    for e in struct:
        if e is None:
            continue
        if e[0] == 'macro' or e[0] == 'env':
            args = e[2]
            if args:
                feats.add('has-slots')
                pat = ''.join('0' if a is None else '1' for a in args)
                feats.add('slots:%d:%s' % (len(args), pat) if len(args) <= 3 else 'slots:4+')
                for a in args:
                    if a is None:
                        feats.add('absent-arg')
                    elif a[0] == 'group':
                        feats.add('arg:group' + a[1])
                        features(a[3], feats)
                    elif a[0] == 'macro':
                        feats.add('arg:token-macro')
                    elif a[0] == 'chars':
                        feats.add('arg:token-char')
            if e[0] == 'env':
                features(e[3], feats)
        elif e[0] == 'math':
            feats.add('math:' + e[1])
            features(e[4], feats)
        elif e[0] == 'group':
            features(e[3], feats)
        elif e[0] == 'specials':
            feats.add('specials')
        elif e[0] == 'par':
            feats.add('par')
        elif e[0] == 'comment':
            feats.add('comment')


def strip_brackets_in_nested(items, in_bgroup=False, child_of_bgroup=False):
    """AST variant for attributing failures to D24: bracket characters are removed from texts
    that sit inside a child construct (braces, macro argument, environment, math) of a
    *nested* bracket group.  If the variant parses to its written structure while the original
    does not, the cause is that brackets stay promoted to group delimiters there."""
    out = []
    for it in items:
        it = list(it)
        k = it[0]
        if k == 'text' and child_of_bgroup:
            t = it[1].replace('[', '').replace(']', '').replace('<', '').replace('>', '')
            if not t:
                continue
            it[1] = t
        elif k == 'group':
            it[1] = strip_brackets_in_nested(it[1], False, child_of_bgroup or in_bgroup)
        elif k == 'bgroup':
            it[1] = strip_brackets_in_nested(it[1], True, child_of_bgroup)
        elif k == 'math':
            it[3] = strip_brackets_in_nested(it[3], False, child_of_bgroup or in_bgroup)
        elif k in ('macro', 'env'):
            si = 3 if k == 'macro' else 2
            slots = []
            for sl in it[si]:
                if sl is None:
                    slots.append(None)
                    continue
                form, pre, content = sl
                if form == 'braced':
                    content = strip_brackets_in_nested(content, False, child_of_bgroup or in_bgroup)
                elif form == 'bracket':
                    # a bracket argument of a macro that itself sits in a nested bracket group:
                    # its content level is a (re-)promoted bracket group
                    content = strip_brackets_in_nested(content, in_bgroup, child_of_bgroup or in_bgroup)
                slots.append([form, pre, content])
            it[si] = slots
            if k == 'env':
                it[3] = strip_brackets_in_nested(it[3], False, child_of_bgroup or in_bgroup)
        out.append(it)
    return out


def structure_ok(signame, ast):
    ctxname = docgrammar.CTX_OF[signame]
    src = docgrammar.render(ast)
    want = docgrammar.expected_structure(ast, None, par_special=(ctxname == 'default'))
    try:
        w, nl = px.parse(src, ctx(ctxname), tolerant=False)
    except BaseException:
        return False
    return actual_list(nl.nodelist) == want


def attributed_to_nested_brackets(signame, ast):
    sig = docgrammar.SIGS[signame]
    variant = docgrammar.normalise(strip_brackets_in_nested(ast), sig)
    if variant == ast:
        return False
    return structure_ok(signame, variant)


def normalise_verbatim(struct):
    """\\verb / verbatim of the default context: the text may be delivered as the argument or
    (verbatim environment) as the body, bare or wrapped in a group with the delimiters -- every
    shape is reduced to the text"""
    out = []
    for e in struct:
        if isinstance(e, list) and e and e[0] == 'macro' and e[1] == 'verb':
            e = ['macro', 'verb', [['vchars', _vtext(e[2])]]]
        elif isinstance(e, list) and e and e[0] == 'env' and e[1] == 'verbatim':
            e = ['env', 'verbatim', [['vchars', _vtext(e[2]) + _vtext(e[3])]], []]
        elif isinstance(e, list) and e and e[0] in ('group', 'math', 'env', 'macro', 'list'):
            e = [normalise_verbatim(x) if isinstance(x, list) and x and isinstance(x[0], list)
                 else x for x in e]
        out.append(e)
    return out


def _vtext(x):
    if x is None:
        return ''
    if isinstance(x, list) and x and isinstance(x[0], str):
        if x[0] in ('vchars', 'chars'):
            return x[1]
        if x[0] == 'group':
            return _vtext(x[3])
        if x[0] == 'list':
            return _vtext(x[1])
        return ''
    if isinstance(x, list):
        return ''.join(_vtext(y) for y in x)
    return ''


def check_doc(signame, ast, res, case=None):
    res.case()
    _CUR['sig'] = signame
    src = docgrammar.render(ast)
    ctxname = docgrammar.CTX_OF[signame]
    want = docgrammar.expected_structure(ast, None, par_special=(ctxname == 'default'))
    case = case or {'sig': signame, 'ast': ast}
    PE = px.parse_error_class()
    feats = set()
    features(want, feats)
    nontriv = bool(feats & {'has-slots', 'specials'}) or any(f.startswith('math:') for f in feats)
    try:
        w, nl = px.parse(src, ctx(ctxname), tolerant=False)
    except PE as e:
        what = (getattr(e, 'error_type_info', None) or {}).get('what', '?')
        if attributed_to_nested_brackets(signame, ast):
            res.fail('c02:nested-brackets-not-restored-for-children',
                     'well-formed document %r rejected (%s): brackets inside a child of a nested '
                     'bracket group are treated as group delimiters' % (src, e.msg), case)
            return
        res.fail('c02:rejected:%s' % what, 'well-formed document %r rejected: %s' % (src, e.msg),
                 case)
        return
    except BaseException as e:
        res.fail(exc_key(e), exc_detail(e) + ' on %r' % src, case)
        return
    got = actual_list(nl.nodelist)
    if docgrammar.SIGS[signame].get('verb'):
        got, want = normalise_verbatim(got), normalise_verbatim(want)
    if got != want:
        d = first_diff(got, want)
        where = d[0] if d else '?'
        tag = 'other'
        # root cause D24: brackets promoted to group delimiters for an optional argument stay
        # promoted for the children of a *nested* bracket group
        if attributed_to_nested_brackets(signame, ast):
            res.fail('c02:nested-brackets-not-restored-for-children',
                     'document %r: at %s parser has %r, written structure is %r (brackets inside '
                     'a child of a nested bracket group are treated as group delimiters)'
                     % (src, where, d[1] if d else None, d[2] if d else None), case)
            return
        if d:
            g, wv = d[1], d[2]
            gk = g[0] if isinstance(g, list) and g and isinstance(g[0], str) else type(g).__name__
            wk = wv[0] if isinstance(wv, list) and wv and isinstance(wv[0], str) else type(wv).__name__
            tag = '%s-instead-of-%s' % (gk, wk)
        res.fail('c02:structure:%s' % tag,
                 'document %r: at %s parser has %r, written structure is %r'
                 % (src, where, d[1] if d else None, d[2] if d else None), case)
        return
    for f in feats:
        res.label(f)
    res.label('ctx:' + ctxname, {'sig': signame, 'src': src})
    if nontriv:
        res.nontriv(src)
    # the same document with blanks between \begin / \end and {name}: same structure
    import re
    import zlib
    n_env = sum(1 for e in _walk_struct(want) if e[0] == 'env')
    if n_env and len(re.findall(r'\\(?:begin|end)\{', src)) == 2 * n_env \
            and 'verbatim' not in src:
        ws = [' ', '\t', '\n', '  '][zlib.crc32(src.encode('utf-8')) % 4]
        src2 = re.sub(r'\\(begin|end)\{', lambda m: '\\' + m.group(1) + ws + '{', src)
        res.case()
        try:
            w2, nl2 = px.parse(src2, ctx(ctxname), tolerant=False)
            got2 = actual_list(nl2.nodelist)
        except BaseException as e:
            res.fail('c02:blank-between-begin-and-name:rejected',
                     'document %r (blanks inserted after \\begin / \\end of %r): %s'
                     % (src2, src, exc_detail(e)), dict(case, begin_ws=ws))
            return
        if got2 != want:
            d = first_diff(got2, want)
            res.fail('c02:blank-between-begin-and-name:structure',
                     'document %r: at %s parser has %r, written structure is %r'
                     % (src2, d[0] if d else '?', d[1] if d else None, d[2] if d else None),
                     dict(case, begin_ws=ws))
            return
        res.label('blank-between-begin-and-name')


def _walk_struct(struct):
    for e in struct:
        if not isinstance(e, list) or not e or not isinstance(e[0], str):
            continue
        yield e
        for sub in e[1:]:
            if isinstance(sub, list):
                for x in _walk_struct([y for y in sub if isinstance(y, list)]):
                    yield x


def _b(items):
    return ['braced', [], items]


def catalogue(signame):
    """base items for the exhaustive derivation sweep (adjacency classes named in the
    property's rationale: optional absent -> bracket text, token argument -> letters,
    control word -> letter / group, comment between macro and argument, $ -> $, ...)"""
    T = lambda t: ['text', t]
    if signame == 'default':
        c = [T('a'), T('[x]'), T('*'), T(']'), ['space', ' '], ['space', '\n'], ['par', '\n\n'],
             ['group', [T('a')]], ['group', []], ['comment', 'c', '\n'], ['comment', '[', '\n '],
             ['specials', '~'], ['specials', '--'], ['specials', "''"]]
        for star in (None, ['star', [], None]):
            for opt in (None, ['bracket', [], [T('y')]]):
                c.append(['macro', '\\', '', [star, opt]])
        c += [['macro', 'item', '', [None]], ['macro', 'item', ' ', [None]],
              ['macro', 'item', '', [['bracket', [['space', ' ']], [T('b')]]]],
              ['macro', 'sqrt', '', [None, _b([T('x')])]],
              ['macro', 'sqrt', '', [['bracket', [], [T('3'), ['bgroup', [T('n')]]]], _b([T('x')])]],
              ['macro', 'sqrt', '', [None, ['token', [['space', ' ']], T('x')]]],
              ['macro', 'textbf', '', [_b([T('b')])]],
              ['macro', 'textbf', '', [['token', [['space', ' ']], T('b')]]],
              ['macro', 'textbf', '', [['token', [], ['macro', 'alpha', ' ', []]]]],
              ['macro', 'textbf', '', [['braced', [['comment', 'k', '\n']], [T('b')]]]],
              ['macro', 'frac', '', [_b([T('1')]), ['token', [], T('2')]]],
              ['macro', 'alpha', '', []], ['macro', 'alpha', ' ', []], ['macro', 'alpha', '\n', []],
              ['macro', '&', '', []],
              ['macro', 'section', '', [None, None, _b([T('s')])]],
              ['macro', 'section', '', [['star', [], None], ['bracket', [], [T('o')]], _b([T('s')])]],
              ['macro', 'cite', '', [None, ['bracket', [], [T('p')]], None, _b([T('k')])]],
              ['macro', 'cite', '', [None, None, None, _b([T('k')])]],
              ['env', 'itemize', [None], [['macro', 'item', ' ', [None]], T('i')]],
              ['env', 'itemize', [['bracket', [], [T('o')]]], []],
              ['env', 'equation', [], [T('e')]], ['env', 'x', [], [T('u')]],
              ['math', '$', '$', [T('m')]], ['math', '$$', '$$', [T('m')]],
              ['math', '\\(', '\\)', [T('m')]], ['math', '\\[', '\\]', []],
              ['verb', '|', 'v{'], ['verbatimenv', 'w}\n']]
        return c
    c = [T('a'), T('<x>'), T('*'), T('[x]'), ['space', ' '], ['space', '\n'], ['par', '\n\n'],
         ['group', [T('a')]], ['comment', 'c', '\n'], ['specials', '+'], ['specials', '++'],
         ['specials', '~']]
    for name, pats in (('mstar', [[None], [['star', [], None]], [['star', [['space', ' ']], None]]]),
                       ('mt', [[None], [['marker', [], '+']]]),
                       ('mo', [[None], [['bracket', [], [T('o')]]],
                               [['bracket', [['space', '\n']], [T('o')]]]]),
                       ('md', [[None], [['bracket', [], [T('d'), ['bgroup', [T('e')]]]]]]),
                       ('mr', [[['bracket', [], [T('r')]]]]),
                       ('mm', [[_b([T('m')])], [['token', [['space', ' ']], T('m')]],
                               [['token', [], ['macro', 'mnone', ' ', []]]]]),
                       ('mv', [[['verb', [], ['{', '}', 'v%']]], [['verb', [], ['|', '|', 'a{']]]]),
                       ('mcombo', [[None, None, _b([T('1')]), _b([T('2')])],
                                   [['star', [], None], ['bracket', [], [T('o')]], _b([T('1')]),
                                    ['token', [], T('2')]]]),
                       ('mcombob', [[None, None, None, None, _b([T('z')])],
                                    [['star', [], None], ['marker', [], '+'], None,
                                     ['bracket', [], [T('d')]], _b([T('z')])]]),
                       ('mmath', [[_b([T('q')])]]), ('mnone', [[]]), ('unk', [[]])):
        if name == 'unk' and signame == 'every-nounknown':
            continue
        for p in pats:
            c.append(['macro', name, '', p])
    c += [['env', 'eenv', [None, _b([T('e')])], [T('b')]],
          ['env', 'eenv', [['bracket', [], [T('o')]], _b([T('e')])], []],
          ['env', 'emath', [], [T('m')]], ['math', '$', '$', [T('m')]]]
    return c


def core_catalogue(signame):
    def absent_only(it):
        if it[0] == 'macro':
            return all(sl is None or sl[0] in ('braced',) for sl in it[3]) and \
                any(sl is None for sl in it[3])
        if it[0] == 'env':
            return any(sl is None for sl in it[2])
        return it[0] in ('text', 'space', 'par', 'comment') or it == ['group', []]
    out = [it for it in catalogue(signame) if absent_only(it)]
    out.append(['macro', 'alpha' if signame == 'default' else 'mnone', '', []])
    return out


def plan(tier, seed):
    n = 16000 if tier == 'quick' else 160000
    shards = [('docs', n // NSHARDS, seed * 1000 + k, CTXS[k % len(CTXS)]) for k in range(NSHARDS)]
    L = 2 if tier == 'quick' else 3
    for signame in ('default', 'every', 'every-nounknown'):
        shards += [('enum', signame, L, k) for k in range(NSHARDS)]
        shards += [('enum', signame, -(L + 1), k) for k in range(NSHARDS)]
    shards += [('parforms', signame) for signame in ('default', 'every')]
    return {'shards': shards, 'bounds': {'documents': n, 'depth': 3, 'contexts': list(CTXS),
                                         'exhaustive_items': L,
                                         'catalogue_sizes': {c: len(catalogue(c)) for c in
                                                             ('default', 'every')}},
            'required_classes': ['slots:1:0', 'slots:1:1', 'slots:2:00', 'slots:2:01', 'slots:2:10',
                                 'slots:2:11', 'slots:3:001', 'slots:3:111', 'slots:3:011', 'slots:3:101',
                                 'slots:4+', 'arg:token-macro', 'arg:token-char', 'arg:group{',
                                 'arg:group[', 'arg:group<', 'math:$', 'math:$$', 'math:\\(',
                                 'math:\\[', 'par', 'comment', 'specials', 'absent-arg',
                                 'blank-between-begin-and-name', 'ctx:default', 'ctx:every', 'ctx:every-strings',
                                 'ctx:every-nounknown', 'enumerated-derivation',
                                 'constructed-paragraph-form']}


def par_forms():
    """written paragraph breaks whose blank line holds blanks / tabs: after a comment (whose own
    line end is the first of the two newlines), a group and plain text"""
    T = lambda s: ['text', s]
    fills = ['', ' ', '\t', ' \t ', '\t\t']
    tails = ['', ' ', '\t']
    for f in fills:
        for t in tails:
            for eol in ('\n', '\n ', '\n\t'):
                yield [T('a'), ['comment', 'c', eol], ['par', f + '\n' + t], T('b')]
                yield [['comment', '', eol], ['par', f + '\n' + t], ['group', [T('b')]]]
            yield [T('a'), ['par', '\n' + f + '\n' + t], T('b')]
            yield [['group', [T('a')]], ['par', '\n' + f + '\n' + t], T('b')]


def run_shard(shard, res):
    if shard[0] == 'parforms':
        for ast in par_forms():
            check_doc(shard[1], ast, res)
            res.label('constructed-paragraph-form')
        res.exhaustive = True
        return
    if shard[0] == 'enum':
        import itertools
        import copy
        _, signame, L, k = shard
        cat = catalogue(signame)
        if L < 0:
            # core sub-catalogue (absent optional slots, bracket / star texts, whitespace),
            # enumerated one item deeper
            L = -L
            cat = core_catalogue(signame)
        sig = docgrammar.SIGS[signame]
        i = 0
        for l in range(1, L + 1):
            for seq in itertools.product(cat, repeat=l):
                if i % NSHARDS == k:
                    ast = docgrammar.normalise(copy.deepcopy(list(seq)), sig)
                    check_doc(signame, ast, res)
                    res.label('enumerated-derivation')
                i += 1
        res.exhaustive = True
        return
    _, n, seed, signame = shard
    hyp_run(docgrammar.document_strategy((signame,), depth=3, max_size=5),
            lambda d: check_doc(d[0], d[1], res), n, seed)


def check_case(case, res):
    check_doc(case['sig'], case['ast'], res, case)


def minimise(case, key):
    sig = docgrammar.SIGS[case['sig']]

    def pred(items):
        r = Result()
        try:
            check_doc(case['sig'], docgrammar.normalise(list(items), sig), r)
        except Exception:
            return False
        return key in r.failures
    items = ddmin(case['ast'], pred)
    return dict(case, ast=docgrammar.normalise(list(items), sig))
