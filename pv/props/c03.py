"""C03 -- latex2text renders the core sublanguage by its documented rules, compositionally."""
import unicodedata

from hypothesis import strategies as st

from .. import docgrammar
from ..engine import exc_key, exc_detail, ddmin, Result, hyp_run
from ..models import l2t_model as M

ID = 'C03'
LEVEL = 'exploration'
RULE = ('(i) Hypothesis draws canonical-form ASTs of the core sublanguage (text with single blanks '
        'and newlines, groups, font/formatting macros with braced and single-token arguments, '
        'symbol and escaped-active macros with and without trailing space, accent macros, '
        '\\frac, \\sqrt[..]{..}, the default specials and &, comments with indentation, paragraph '
        'breaks, itemize/enumerate with \\item[..], unknown environments, $ \\( $$ \\[ and '
        'equation), nested to depth 3; each document is converted under option sets over '
        'strict_latex_spaces (5) x math_mode (4) x keep_braced_groups (2) and compared, string for '
        'string, with a reference model that works on the AST and implements only the documented '
        'rules. (ii) metamorphic relations over the wider document grammar: T(A \\n\\n B) = '
        'T(A)+\\n\\n+T(B), T(A B) = T(A)+" "+T(B) for self-contained blocks that begin and end '
        'with a letter, T({A}) = T(A) = T(\\textbf{A}). Non-trivial = document with >= 2 constructs '
        'of different kinds adjacent across whitespace or a comment; distinct by (source, options).')
ASSUMPTIONS = [
    'canonical form (DESIGN 3.3): whitespace after a control word is that macro\'s trailing space; '
    'whitespace after a comment belongs to the comment; a comment newline followed by a blank '
    'line starts a paragraph break; adjacent paragraph breaks are one; $..$ bodies are non-empty',
    'symbol characters of ~20 well-known macros are stated in the model, not read from the tree',
]
NSHARDS = 16
SPACES = [False, 'based-on-source', 'except-in-equations', True, 'macros']
MATH_MODES = ['text', 'with-delimiters', 'verbatim', 'remove']
ALL_OPTS = [dict(strict_latex_spaces=s, math_mode=m, keep_braced_groups=b)
            for s in SPACES for m in MATH_MODES for b in (False, True)]
QUICK_OPTS = [ALL_OPTS[i] for i in (0, 9, 18, 27, 36, 5, 14, 23, 28, 39)]

WORDS = ['a', 'b', 'ab', 'xyz', 'A', '1', 'q.', '(x)']
SEPS = [' ', ' ', '  ', '\n', ' \n ', '\n  ']
BLANKS = [' ', '  ', '\t']
SYMS_CW = ['alpha', 'beta', 'ldots', 'oe', 'ss', 'l', 'infty', 'Omega', 'times', 'to',
           'gamma', 'pi', 'o', 'ae', 'leq', 'textendash']
SYMS_CS = ['&', '$', '{', '}', '#', '_', '%']
FONTS = ['textbf', 'emph', 'textit', 'text', 'mathrm', 'textsc', 'textrm', 'textsl']
ACC = ["'", '`', '"', '^', '~', 'c', 'v', 'H', 'k', '=', '.', 'd', 'r', 'u', 'b']
ACC_MATH = ['hat', 'bar', 'vec', 'tilde', 'dot', 'ddot']
SPECIALS = ['~', '--', '---', '``', "''", '&', '!`', '?`']
EQ_ENVS = list(M.DISPLAY_ENVS)


@st.composite
def text_body(draw, lead=True, trail=True, newline_ok_lead=True, newline_ok_trail=True):
    n = draw(st.integers(1, 3))
    s = ''
    if lead and draw(st.integers(0, 3)) == 0:
        s += draw(st.sampled_from(SEPS if newline_ok_lead else BLANKS))
    for i in range(n):
        if i:
            s += draw(st.sampled_from(SEPS))
        s += draw(st.sampled_from(WORDS))
    if trail and draw(st.integers(0, 3)) == 0:
        s += draw(st.sampled_from(SEPS if newline_ok_trail else BLANKS))
    return s


def _after_needs_no_ws(prev):
    """after an argument-less control word or a comment, whitespace is owned by that item"""
    if prev is None:
        return False
    if prev[0] == 'comment':
        return True
    if prev[0] == 'macro' and prev[3]:
        last = [sl for sl in prev[3] if sl is not None]
        if last and last[-1][0] == 'token' and last[-1][2][0] == 'macro' \
                and docgrammar.is_control_word(last[-1][2][1]):
            return True     # whitespace after a control word given as single-token argument
    return prev[0] == 'macro' and M.is_bare_control_word(prev) and docgrammar.is_control_word(prev[1])


@st.composite
def item_list(draw, depth, in_math=False, allow_par=True, in_list_env=False, max_items=5):
    items = []
    n = draw(st.integers(0, max_items))
    for _ in range(n):
        prev = items[-1] if items else None
        choices = ['text', 'text', 'ws', 'sym', 'sym', 'comment', 'specials']
        if depth > 0:
            choices += ['group', 'font', 'font', 'accent', 'frac', 'sqrt', 'env']
            if not in_math:
                choices += ['math', 'math', 'equation']
        if allow_par and not in_math:
            choices.append('par')
        if in_list_env:
            choices += ['item', 'item']
        kind = draw(st.sampled_from(choices))
        noleadws = _after_needs_no_ws(prev)
        after_par = prev is not None and prev[0] == 'par'
        if kind in ('text', 'ws'):
            if prev is not None and prev[0] == 'text':
                continue
            if kind == 'ws':
                if noleadws:
                    continue
                ws = draw(st.sampled_from(BLANKS if after_par else SEPS))
                items.append(['text', ws])
            else:
                t = draw(text_body(lead=not noleadws, newline_ok_lead=not after_par))
                if in_math and '$' in t:
                    t = t.replace('$', '')
                items.append(['text', t])
        elif kind == 'par':
            if prev is None or prev[0] == 'par':
                continue
            if prev[0] == 'text':
                # blanks before the first newline stay with the text; no newline there
                body = prev[1]
                stripped = body.rstrip()
                tail = body[len(stripped):]
                if '\n' in tail:
                    prev[1] = stripped + tail.replace('\n', '')
                if prev[1] == '':
                    items.pop()
                    if items and items[-1][0] == 'par':
                        continue
            prev = items[-1] if items else None
            if prev is not None and prev[0] == 'macro' and M.is_bare_control_word(prev):
                prev[2] = prev[2].replace('\n', ' ') if '\n' in prev[2] else prev[2]
            if prev is not None and prev[0] == 'comment':
                prev[2] = ''
            items.append(['par', draw(st.sampled_from(['\n\n', '\n\n\n', '\n \n']))])
        elif kind == 'sym':
            if draw(st.booleans()):
                name = draw(st.sampled_from(SYMS_CW))
                ps = draw(st.sampled_from(['', ' ', ' ', '\n', '  ']))
                items.append(['macro', name, ps, []])
            else:
                items.append(['macro', draw(st.sampled_from(SYMS_CS)), '', []])
        elif kind == 'comment':
            eol = draw(st.sampled_from(['\n', '\n  ', '\n ']))
            items.append(['comment', draw(st.sampled_from(['c', ' note ', '', 'x{'])), eol])
        elif kind == 'specials':
            sp = draw(st.sampled_from(SPECIALS))
            if prev is not None and prev[0] == 'specials':
                continue
            if prev is not None and prev[0] == 'text' and prev[1][-1:] in "-`'!?":
                continue
            items.append(['specials', sp])
        elif kind == 'group':
            items.append(['group', draw(item_list(depth - 1, in_math, allow_par, False, 3))])
        elif kind == 'font':
            name = draw(st.sampled_from(FONTS))
            mode_math = in_math and name not in ('text',)
            if draw(st.integers(0, 3)):
                pre = draw(st.sampled_from([[], [], [['space', ' ']], [['space', '\n']]]))
                slot = ['braced', pre, draw(item_list(depth - 1, mode_math, allow_par, False, 3))]
            else:
                tok = draw(st.sampled_from([['text', 'a'], ['text', 'Z'],
                                            ['macro', 'alpha', ' ', []], ['macro', '&', '', []]]))
                slot = ['token', [['space', ' ']], tok]
            items.append(['macro', name, '', [slot]])
        elif kind == 'accent':
            name = draw(st.sampled_from(ACC + (ACC_MATH if in_math else [])))
            letter = draw(st.sampled_from(list('aeoucnzAEOUNyg')))
            dotless = draw(st.integers(0, 5)) == 0
            which = draw(st.integers(0, 2))
            if dotless:
                tok = ['macro', draw(st.sampled_from(['i', 'j'])), '', []]
                slot = ['braced', [], [tok]]
            elif which:
                slot = ['braced', [], [['text', letter]]]
            else:
                slot = ['token', [['space', ' ']] if docgrammar.is_control_word(name) else [],
                        ['text', letter]]
            items.append(['macro', name, '', [slot]])
        elif kind == 'frac' and draw(st.integers(0, 3)) == 0:
            # single-token arguments: \frac12, \frac ab, \frac1{..}
            t1 = draw(st.sampled_from(['1', 'a', '7']))
            first = ['token', [] if t1.isdigit() else [['space', ' ']], ['text', t1]]
            if draw(st.booleans()):
                second = ['token', [], ['text', draw(st.sampled_from(['2', 'b']))]]
            else:
                second = ['braced', [], draw(item_list(depth - 1, in_math, False, False, 2))]
            items.append(['macro', 'frac', '', [first, second]])
        elif kind == 'frac':
            items.append(['macro', 'frac', '',
                          [['braced', [], draw(item_list(depth - 1, in_math, False, False, 2))],
                           ['braced', draw(st.sampled_from([[], [['space', ' ']]])),
                            draw(item_list(depth - 1, in_math, False, False, 2))]]])
        elif kind == 'sqrt':
            opt = None
            if draw(st.booleans()):
                opt = ['bracket', [], [['text', draw(st.sampled_from(['3', 'n']))]]]
            items.append(['macro', 'sqrt', '',
                          [opt, ['braced', [], draw(item_list(depth - 1, in_math, False, False, 2))]]])
        elif kind == 'item':
            opt = None
            if draw(st.integers(0, 2)) == 0:
                # a label: text, nothing at all (the idiom that suppresses the bullet), or something
                # that renders to nothing
                opt = ['bracket', [], draw(st.sampled_from([
                    [['text', 'a']], [['text', 'ab']], [['text', '1.']], [], [['group', []]],
                    [['macro', 'textbf', '', [['braced', [], []]]]], [['text', 'a']]]))]
            ps = draw(st.sampled_from(['', ' ', '\n'])) if opt is None else ''
            items.append(['macro', 'item', ps, [opt]])
        elif kind == 'env':
            name = draw(st.sampled_from(['itemize', 'enumerate', 'x']))
            body = draw(item_list(depth - 1, in_math, allow_par, name != 'x', 4))
            if body and body[0][0] == 'text' and body[0][1].lstrip()[:1] == '[':
                body = [['group', []]] + body
            items.append(['env', name, [None] if name != 'x' else [], body])
        elif kind == 'math':
            d = draw(st.sampled_from(docgrammar.MATH_DELIMS))
            body = draw(item_list(depth - 1, True, False, False, 4))    # no blank line inside math
            if d[0] == '$' and docgrammar.render(body).strip() == '':
                body = [['text', 'x']]
            if d[0] in ('$', '$$'):
                body = [b for b in body if b[0] != 'par']
            items.append(['math', d[0], d[1], body])
        elif kind == 'equation':
            items.append(['env', draw(st.sampled_from(EQ_ENVS)), [],
                          draw(item_list(depth - 1, True, False, False, 4))])
    return finalize(items, in_math)


def finalize(items, in_math):
    """last fixes for canonical form at list level"""
    out = []
    for it in items:
        prev = out[-1] if out else None
        if it[0] == 'text' and prev is not None and prev[0] == 'text':
            continue
        if it[0] == 'text' and _after_needs_no_ws(prev):
            t = it[1].lstrip()
            if not t:
                continue
            it = ['text', t]
        if it[0] == 'text' and prev is not None and prev[0] == 'par':
            lead = it[1][:len(it[1]) - len(it[1].lstrip())]
            if '\n' in lead:
                it = ['text', lead.replace('\n', '') + it[1].lstrip()]
            if it[1] == '':
                continue
        if it[0] == 'text' and prev is not None and prev[0] == 'macro' \
                and M.is_bare_control_word(prev) and docgrammar.is_control_word(prev[1]) \
                and not prev[2] and it[1][:1].isalpha():
            prev[2] = ' '
        if prev is not None and prev[0] == 'macro' and prev[1] in ('item', 'sqrt') and \
                (prev[3][0] is None) and it[0] == 'text' and it[1].lstrip()[:1] == '[':
            out.append(['group', []])
        if it[0] == 'specials' and prev is not None and prev[0] == 'text' \
                and prev[1][-1:] in "-`'!?":
            out.append(['group', []])
        if it[0] == 'text' and prev is not None and prev[0] == 'specials' and it[1][:1] in "-`'":
            out.append(['group', []])
        if it[0] == 'par' and prev is not None and prev[0] == 'par':
            continue        # adjacent paragraph breaks are one
        if it[0] == 'par' and prev is not None and prev[0] == 'text' and prev[1].strip() == '' \
                and len(out) >= 2 and out[-2][0] == 'par':
            out.pop()       # par, blanks, par -> one par
            continue
        # a comment directly before a paragraph break loses its own newline (canonical form)
        if it[0] == 'par' and prev is not None and prev[0] == 'comment':
            prev[2] = ''
        if it[0] == 'par' and prev is not None and prev[0] == 'macro' and \
                M.is_bare_control_word(prev):
            prev[2] = prev[2].replace('\n', '')
        # two newline-bearing whitespace pieces in a row would be a paragraph break
        if it[0] == 'text' and prev is not None and prev[0] == 'text':
            continue
        out.append(it)
    # comment as the very last item keeps its newline (also at end of input)
    return out


def opts_model(opts):
    return M.Model(opts, docgrammar.render)


_L2T = {}


def l2t(opts):
    from pylatexenc.latex2text import LatexNodes2Text
    k = repr(sorted(opts.items()))
    if k not in _L2T:
        _L2T[k] = LatexNodes2Text(**opts)
    return _L2T[k]


def kinds_adjacent(items):
    """non-trivial rule: >= 2 constructs of different kinds adjacent across whitespace/comment"""
    ks = []
    for it in items:
        if it[0] == 'text' and it[1].strip() == '':
            continue
        if it[0] == 'comment':
            continue
        ks.append(it[0] + (':' + it[1] if it[0] in ('macro', 'env') else ''))
    return len(set(ks)) >= 2


def check_doc(ast, opts_list, res, case_base):
    src = docgrammar.render(ast)
    for opts in opts_list:
        res.case()
        case = dict(case_base, opts=opts)
        try:
            want = opts_model(opts).text(ast)
        except Exception as e:
            from ..engine import HarnessError
            raise HarnessError('reference model failed on %r: %s' % (src, exc_detail(e)))
        try:
            got = l2t(opts).latex_to_text(src, tolerant_parsing=False)
        except BaseException as e:
            res.fail(exc_key(e), exc_detail(e) + ' on %r' % src, case)
            continue
        # canonically equivalent output (accents emitted decomposed) is the same text
        got_n = unicodedata.normalize('NFC', got)
        if got_n != unicodedata.normalize('NFC', want):
            # the points the documentation leaves open (models.l2t_model.ALTERNATIVES)
            ok = False
            for alt in M.ALTERNATIVES[1:]:
                mdl = opts_model(opts)
                mdl.alt = alt
                try:
                    if unicodedata.normalize('NFC', mdl.text(ast)) == got_n:
                        ok = True
                        res.label('documentation-leaves-open:' + '+'.join(sorted(alt)))
                        break
                except Exception:
                    pass
            if ok:
                continue
            i = 0
            while i < min(len(got), len(want)) and got[i] == want[i]:
                i += 1
            ws = (got[i:i + 1].isspace() or want[i:i + 1].isspace() or i >= len(got)
                  or i >= len(want))
            res.fail('c03:text-differs:%s:spaces=%s:math=%s' % (
                'whitespace' if ws else 'content', opts['strict_latex_spaces'], opts['math_mode']),
                'document %r with %r: latex2text %r, documented rules give %r (first difference '
                'at %d)' % (src, opts, got, want, i), case)
        elif kinds_adjacent(ast):
            res.nontriv((src, repr(sorted(opts.items()))))
    for it in ast:
        res.label('top:' + it[0], {'src': src})


def check_metamorphic(a_doc, b_doc, opts, res):
    """T(A par B) = T(A) par T(B); T(A sp B) = T(A) sp T(B); T({A}) = T(A) = T(\\textbf{A})"""
    A = 'p{}' + docgrammar.render(a_doc[1]) + '{}q'
    B = 'r{}' + docgrammar.render(b_doc[1]) + '{}s'
    conv = lambda s: l2t(opts).latex_to_text(s, tolerant_parsing=False)
    case = {'kind': 'meta', 'A': A, 'B': B, 'opts': opts}
    res.case()
    try:
        ta, tb = conv(A), conv(B)
        rel = [('par', conv(A + '\n\n' + B), ta + '\n\n' + tb),
               ('space', conv(A + ' ' + B), ta + ' ' + tb)]
        if not opts.get('keep_braced_groups'):
            rel.append(('group', conv('{' + A + '}'), ta))
            rel.append(('textbf', conv('\\textbf{' + A + '}'), ta))
    except BaseException as e:
        # (every block is a well-formed document: nothing here may raise)
        res.fail(exc_key(e), exc_detail(e) + ' on blocks %r / %r' % (A, B), case)
        return
    res.label('meta')
    for name, got, want in rel:
        if got != want:
            res.fail('c03:compositional:%s' % name,
                     'A=%r B=%r (%r): conversion of the composite %r, composition of the '
                     'conversions %r' % (A, B, opts, got, want), case)


def plan(tier, seed):
    n, nmeta = (6400, 3200) if tier == 'quick' else (48000, 48000)
    shards = [('docs', n // NSHARDS, seed * 1000 + k, tier) for k in range(NSHARDS)]
    shards += [('meta', nmeta // NSHARDS, seed * 1000 + 100 + k) for k in range(NSHARDS)]
    return {'shards': shards, 'bounds': {'documents': n, 'depth': 3, 'metamorphic_pairs': nmeta,
                                         'option_sets': len(QUICK_OPTS) if tier == 'quick'
                                         else len(ALL_OPTS)},
            'required_classes': ['top:text', 'top:macro', 'top:comment', 'top:par', 'top:math',
                                 'top:env', 'top:group', 'top:specials', 'meta']}


def run_shard(shard, res):
    if shard[0] == 'docs':
        _, n, seed, tier = shard
        opts = QUICK_OPTS if tier == 'quick' else ALL_OPTS
        hyp_run(item_list(3, False, True, False, 6),
                lambda ast: check_doc(ast, opts, res, {'kind': 'doc', 'ast': ast}), n, seed)
    else:
        _, n, seed = shard
        doc = docgrammar.document_strategy(('core-noverb',), depth=2, max_size=3)
        strat = st.tuples(doc, doc, st.sampled_from(ALL_OPTS))
        hyp_run(strat, lambda x: check_metamorphic(x[0], x[1], x[2], res), n, seed)


def check_case(case, res):
    if case.get('kind') == 'meta':
        # replay on the recorded sources
        A, B, opts = case['A'], case['B'], case['opts']
        check_metamorphic((None, [['text', A[1:-1]]]) if False else _src_doc(A),
                          _src_doc(B), opts, res)
    else:
        check_doc(case['ast'], [case['opts']], res, {'kind': 'doc', 'ast': case['ast']})


class _Raw(list):
    pass


def _src_doc(s):
    # recorded block source 'p...q': wrap as a raw text item (render() returns it verbatim)
    return (None, [['text', s[3:-3]]])


def minimise(case, key):
    if case.get('kind') == 'meta':
        return case

    def pred(items):
        r = Result()
        try:
            check_doc(finalize(list(items), False), [case['opts']], r, {})
        except Exception:
            return False
        return key in r.failures
    items = ddmin(case['ast'], pred)
    return dict(case, ast=finalize(list(items), False))
