"""C09 -- parsing is a pure function of input, context and flags."""
import itertools
import json
import os
import pickle

from .. import contexts, fresh, VERIF
from ..engine import exc_key, exc_detail, ddmin, Result, hyp_run, HarnessError

ID = 'C09'
LEVEL = 'exploration'
RULE = ('histories of parse(document, context, flags) calls sharing one process, one context '
        'database object per recipe and the globally cached argument parsers: all orderings of '
        'every 3-subset of an 8-document suspicious pool (exhaustive) plus Hypothesis histories of '
        '2..8 (quick) / 2..20 (thorough) steps over a document pool x 3 context recipes (default; '
        'one shared every-argument-type database incl. v / r / d arguments and math/text deltas; '
        'a database built through extended_with) x {strict, tolerant}. Each history runs in its '
        'own forked child of a parent that has parsed nothing; after every step the canonical dump '
        '(or error type, position, kind) must equal the result of the same parse in a brand-new '
        'interpreter (subprocess), and a structural snapshot of each context database must be '
        'unchanged. Ordered pairs include documents that abort inside every argument parser class (verbatim '
        'arguments at nesting depth 1-3). '
        'Non-trivial = history with >= 2 parses sharing a context object of which one '
        'touches a cached standard-argument parser; distinct by history.')
ASSUMPTIONS = ['the freeze() flag set by the walker is excluded from the database snapshot',
               'fresh results come from subprocesses started with the same PYTHONHASHSEED']
NSHARDS = 16
RECIPES = ['default', 'every', 'extended', 'extra', 'extdelta', 'extdelta2', 'options', 'optget',
           'optget2']

SUSPICIOUS = [
    ['every', '\\mv{a{b}c}d'],
    ['every', '\\mv{ab}\\mvb{c{d}}'],
    ['every', '\\mcombo*[o]{a}{b}\\mr<x<y>z>'],
    ['every', '\\mmath{a$b}'],
    ['default', '\\textbf{a}\\verb|x| $y$'],
    ['default', '\\begin{itemize}[o]\\item[a] b\\end{itemize}'],
    ['extended', '\\mcombo*[o]{a}{b} \\mv|x{|'],
    ['default', '\\frac{a}{ {b} \\sqrt[3]{c}'],
]
SUSPICIOUS_MORE = [
    ['every', '\\me^{a}_{b}'],
    ['every', '\\me_{b}x\\me^c'],
    ['every', '\\many(a(b)c)\\manyo<x>{y}\\manyo{z}'],
    ['extra', '\\mcomma{a,b{c,d},e}x\\mcommak{,a,}'],
    ['extra', '\\mtack{a}\\ta{x}\\tb y\\tb{z}w\\mempty+\\mempty'],
    ['extra', '\\mchars{a{b}%c\n}\\me^a_b'],
    ['extdelta', '\\begin{defenv}\\entry[a]b\\end{defenv}\\entry[c]'],
    ['extdelta', '\\entry[b]\\auto[x]{y}\\textbf{z}'],
    ['extdelta', '\\begin{defenvb}[o]\\entry{a}{b}\\textbf{c}\\end{defenvb}\\textbf{d}'],
]
# names that only the shared "unknown" specification objects of a context answer for: the same
# specification object serves different names in different documents
UNKNOWN_NAMES = [
    ['default', 'p \\begin{unkenva}a $x$ \\unkmaca{b}\\end{unkenva} q'],
    ['default', 'r \\begin{unkenvb}c \\unkmacb d\\end{unkenvb} s'],
    ['default', '\\begin{itemize}\\item \\begin{unkenvc}e\\end{unkenvc}\\end{itemize}\\unkmaca'],
    ['extended', '\\begin{unkenva}a\\unkmaca\\end{unkenva}'],
    ['extended', '\\begin{unkenvb}a\\unkmacb\\end{unkenvb}'],
    # the same context-extending environment met over different surrounding definitions: at top
    # level (\textbf takes an argument) and inside defenvb (\textbf takes none, \entry takes two)
    ['extdelta', '\\begin{defenv}\\textbf{x}\\entry[a]\\end{defenv}'],
    ['extdelta', '\\begin{defenvb}[o]\\begin{defenv}\\textbf{x}\\entry[a]\\end{defenv}\\end{defenvb}'],
    ['extdelta', '\\begin{defenv}\\begin{defenvb}[o]\\entry{a}{b}\\textbf{c}\\end{defenvb}\\entry[d]\\end{defenv}'],
    ['extdelta2', '\\begin{defenv}\\textbf{x}\\entry[a]\\end{defenv}'],
    ['extdelta2', '\\begin{defenvb}[o]\\begin{defenv}\\textbf{x}\\entry[a]\\end{defenv}\\end{defenvb}'],
    ['extdelta', '\\begin{unkenva}\\entry[a]b\\end{unkenva}'],
    ['extdelta', '\\begin{unkenvb}\\entry[a]b\\end{unkenvb}'],
]
# a parse that aborts inside an argument / body parser (something still open at the end of the
# input), and a well-formed use of the same parser class with other delimiters or contents;
# other parameterisations of the standard argument letters (options context: r(), d(), t!, e{_}
# next to the every-type context's r<>, d<>, t+, e{^_}: the parser objects are cached globally)
ABORTED = [
    ['every', '\\mv{a{b}c'], ['every', '\\mv|x{|\\mv(y)'], ['every', '\\mr<a'], ['every', '\\mr<x>y\\md<z>'],
    ['every', '\\mo[a'], ['every', '\\me^{a'], ['every', '\\mcombob*+[o]<d>{m}\\mopt[a]\\mmand b!{c}'],
    ['extra', '\\mcomma{a,b'], ['extra', '\\mchars{a'], ['extra', '\\begin{vcode}ab'],
    ['extra', '\\begin{vcode}\nx{\\end{vcode}\\msn{a}\\many(b)\\mm c\\begin{eenv}[o]{m}d\\end{eenv}'],
    ['extra', '\\many(a'], ['extra', '\\many[b]\\many<c>'],
    ['options', '\\orr(a'], ['options', '\\orr(x)y\\odd(a)\\ott!\\oee_a\\oom{a}[b]'],
    ['options', '\\omark+{a}-{b}\\omarkb++{c}\\omarkg+{d}\\osn e\\ofull{f}\\onosp{g}\\oonosp[h]{i}'],
    ['options', '\\olegacy*[a]{b}\\olegns [a]{b}\\begin{oenv}*(a){b}c\\end{oenv}'],
    ['options', '\\olegacy*[a'], ['options', '\\begin{oenv}(a'],
    ['default', '\\begin{lstlisting}[a]b{\\end{lstlisting}\\verb|x|'], ['default', '\\begin{lstlisting}[a'],
    ['default', '\\verb|x'],
    # mandatory arguments written with another group delimiter, under a parsing state that has
    # ( ) as group delimiters as well, next to the same calls written with braces
    ['every@parens', '\\mmand(a) \\mm(b)c'], ['every@parens', '\\mmand{a} (b) \\mm{c}'],
    ['every', '\\mmand{a} \\mm{b}(c)'], ['default@parens', '\\textbf(a) \\frac(b){c}'],
    ['default@parens', '\\textbf{a} \\sqrt[3](b)'],
    # end of input inside a delimited verbatim argument at nesting depth two or three, and documents
    # where a depth counter left over from such a parse would change where the argument ends
    ['every', '\\mv{a{b'], ['every', '\\mv{one} two}'], ['every', '\\mv(a(b(c'], ['every', '\\mv(x) y) z)'],
    ['every', '\\mv[a[b'], ['every', '\\mv[x] y]'], ['every', '\\mv<a<b'], ['every', '\\mv<x> y>'],
    # the same argument letter with different parser options inside one context: the line-break
    # macro's optional argument does not accept blanks before it, every other [ does
    ['default', '\\item[x] \\sqrt[3]{z} \\section* [Short]{t}'], ['default', 'a\\\\ [C,D] b\\\\[2mm] c'],
    ['extdelta2', '\\begin{defenv}\\entry[a]b\\end{defenv}\\entry[c]'],
    ['extdelta2', '\\entry[b]\\auto[x]{y}\\begin{defenvb}[o]\\entry{a}{b}\\end{defenvb}'],
    # the same argument letters and option names with opposite option values, obtained from the
    # library's process-wide cache of standard argument parsers
    ['optget', '\\ogfull a\\ogfull{b c}\\ogsp{d} [e]\\ogboth {f}\\ogplain{g} [h]'],
    ['optget2', '\\ogfull a\\ogfull{b c}\\ogsp{d} [e]\\ogboth {f}\\ogplain{g} [h]'],
]
SUSPICIOUS_MORE = SUSPICIOUS_MORE + UNKNOWN_NAMES + ABORTED


def soup_pool(n=12):
    """deterministic token soups over the tokens of the extra / options contexts"""
    import zlib
    from ..contexts import EXTRA_TOKENS, OPTIONS_TOKENS
    out = []
    for recipe, toks in (('extra', EXTRA_TOKENS), ('options', OPTIONS_TOKENS)):
        for i in range(n):
            h = zlib.crc32(('%s/%d' % (recipe, i)).encode())
            src = ''.join(toks[(h >> (5 * j)) % len(toks)] for j in range(5))
            out.append([recipe, src])
    return out


def grammar_pool(n=48, seed=20260104):
    """documents drawn from the document grammar (deterministic): the pool is not limited to what
    was thought suspicious in advance"""
    from .. import docgrammar
    from ..engine import hyp_run as _hr
    got = []

    def one(doc):
        signame, src = doc
        if 0 < len(src) <= 120 and [docgrammar.CTX_OF[signame], src] not in got:
            got.append([docgrammar.CTX_OF[signame], src])
    _hr(docgrammar.source_strategy(('default', 'every'), depth=2), one, n, seed)
    return got


def fresh_default_docs():
    """one document per category of the default database (read at run time), calling up to four
    of its macros / environments with their declared arguments: parsed under a database built
    anew for every parse (what LatexWalker(s) without latex_context= does), twice in a row"""
    from pylatexenc.latexwalker import get_default_latex_context_db
    from ..treedump import argspec_str
    db = get_default_latex_context_db()

    def args(spec):
        out = ''
        for a in (spec.arguments_spec_list or []):
            t = argspec_str(a)
            out += {'*': '*', '[': '[o]', '{': '{m}'}.get(t, '{m}' if t not in ('*', '[') else '')
        return out
    docs = []
    for cat in db.categories():
        parts = []
        envs = [e for e in db.iter_environment_specs(categories=[cat])
                if e.environmentname and 'verbatim' not in e.environmentname
                and e.environmentname != 'lstlisting']
        macs = [m for m in db.iter_macro_specs(categories=[cat])
                if m.macroname and m.macroname.isalpha() and m.macroname not in ('verb', 'begin',
                                                                                   'end')]
        for e in sorted(envs, key=lambda x: x.environmentname)[:3]:
            parts.append('\\begin{%s}%s b\\end{%s}' % (e.environmentname, args(e),
                                                         e.environmentname))
        with_args = [m for m in macs if m.arguments_spec_list]
        for m in sorted(with_args, key=lambda x: x.macroname)[:3]:
            parts.append('\\%s%s' % (m.macroname, args(m)))
        if parts:
            docs.append(['default-fresh', ' x '.join(parts)])
    return docs


FRESH_DOCS = fresh_default_docs()


POOL = FRESH_DOCS + SUSPICIOUS + SUSPICIOUS_MORE + grammar_pool() + soup_pool() + [
    ['every', '\\mt+\\mt \\md<a>\\md x'],
    ['every', '\\mstar*\\ms \\mo[a[b]c]'],
    ['every', '\\begin{eenv}[o]{m}body\\end{eenv}\\begin{emath}x\\end{emath}'],
    ['every', '\\mtext{a $b$}\\mmath{c}'],
    ['every', '\\mv{a{b}c'],
    ['every', '\\mvb{{}}x'],
    ['every', 'a+b++c~d'],
    ['every', '\\mr x'],
    ['default', 'a\n\nb % c\n d'],
    ['default', '\\section*[s]{t} \\\\[2mm] \\\\ [x]'],
    ['default', '\\cite[a][b]{k}\\cite{k}\\cite*{z}'],
    ['default', '$$a$$ \\[b\\] \\(c\\)'],
    ['default', '\\begin{verbatim}\\a{\n\\end{verbatim}'],
    ['default', '\\begin{equation}\\text{a $b$}\\end{equation}'],
    ['default', '\\newcommand\\foo[2][x]{a#1}'],
    ['default', '{\\it a} --- ``b\'\''],
    ['default', 'x } y'],
    ['default', '\\begin{x} a \\end{y}'],
    ['default', '\\textbf$'],
    ['default', '\\verb'],
    ['default', 'a\\'],
    ['extended', '\\begin{eenv}[o]{m}b\\end{eenv} \\textbf{x}'],
    ['extended', '\\mv{a{b}c}d \\mv{e{f}g}'],
    ['extended', '\\mcombo{a}{b}'],
]


def job_key(recipe, source, tolerant):
    return json.dumps([recipe, source, bool(tolerant)])


def db_snapshot(db):
    snap = []
    for cat in db.categories():
        # which objects define which names, category by category (identity of the stored
        # specification objects and their declared argument signature; not their repr, which
        # would also show private caches)
        def sig(s):
            return [str(getattr(a, 'parser', a)) if isinstance(getattr(a, 'parser', a), str)
                    else type(getattr(a, 'parser', a)).__name__
                    for a in (getattr(s, 'arguments_spec_list', None) or [])]
        ms = sorted((s.macroname, id(s), type(s).__name__, sig(s))
                    for s in db.iter_macro_specs(categories=[cat]))
        es = sorted((s.environmentname, id(s), type(s).__name__, sig(s))
                    for s in db.iter_environment_specs(categories=[cat]))
        ss = sorted((s.specials_chars, id(s), type(s).__name__, sig(s))
                    for s in db.iter_specials_specs(categories=[cat]))
        snap.append((cat, ms, es, ss))
    snap.append(('categories', list(db.categories())))
    unk = tuple(type(x).__name__ for x in (db.get_macro_spec('no such macro zzz'),
                                           db.get_environment_spec('no such env zzz'),
                                           db.get_specials_spec('\x00zz')))
    return (snap, unk)


def run_history_here(history, table):
    """executes the history in this process; returns list of failure tuples (key, detail)"""
    out = []
    dbs = {}
    snaps = {}
    labels = set()
    for i, (recipe, source, tolerant) in enumerate(history):
        try:
            if recipe.endswith('-fresh'):
                dbs.pop(recipe, None)       # a database of its own for every parse
            if recipe not in dbs:
                # ('every@parens' shares the database object of 'every')
                base = recipe.split('@')[0]
                if base != recipe and base in dbs:
                    dbs[recipe] = dbs[base]
                else:
                    dbs[recipe] = contexts.build(base)
                snaps[recipe] = db_snapshot(dbs[recipe])     # before anything is parsed
            got = fresh.outcome(recipe, source, tolerant, ctx=dbs[recipe])
            got = json.loads(json.dumps(got, sort_keys=True))
        except BaseException as e:
            out.append((exc_key(e), exc_detail(e), i))
            break
        want = table.get(job_key(recipe, source, tolerant))
        if want is None:
            out.append(('harness:no-fresh-result', job_key(recipe, source, tolerant), i))
            break
        labels.add('outcome:' + got[0])
        if got != want:
            kind = '%s-vs-%s' % (got[0], want[0])
            out.append(('c09:differs-from-fresh-interpreter:%s:%s' % (
                recipe, kind if got[0] != want[0] else 'same-kind'),
                'step %d: parse of %r (%s, %s) after %r gives %s, a fresh interpreter gives %s'
                % (i, source, recipe, 'tolerant' if tolerant else 'strict',
                   [h[1] for h in history[:i]], str(got)[:200], str(want)[:200]), i))
            break
        now = db_snapshot(dbs[recipe])
        if now != snaps[recipe]:
            out.append(('c09:context-database-modified:%s' % recipe,
                        'step %d: parsing %r changed the context database it was given'
                        % (i, source), i))
            break
    return out, sorted(labels)


def run_history_forked(history, table):
    """one forked child per history (the parent has parsed nothing)"""
    r, w = os.pipe()
    pid = os.fork()
    if pid == 0:
        try:
            os.close(r)
            res = run_history_here(history, table)
            with os.fdopen(w, 'wb') as f:
                pickle.dump(res, f)
        finally:
            os._exit(0)
    os.close(w)
    with os.fdopen(r, 'rb') as f:
        data = f.read()
    os.waitpid(pid, 0)
    if not data:
        raise HarnessError('history child died without result: %r' % (history,))
    return pickle.loads(data)


def record(history, result, res):
    fails, labels = result
    res.case()
    case = {'history': [list(h) for h in history]}
    for key, detail, step in fails:
        if key.startswith('harness:'):
            raise HarnessError(detail)
        res.fail(key, detail, {'history': [list(h) for h in history[:step + 1]]})
    for lab in labels:
        res.label(lab)
    recipes = [h[0] for h in history]
    shared = any(recipes.count(r) >= 2 for r in set(recipes))
    touches = any(('\\m' in h[1] or '\\sqrt' in h[1] or '\\cite' in h[1] or '\\section' in h[1]
                   or '\\item' in h[1] or '\\begin{eenv}' in h[1]) for h in history)
    if shared and touches and len(history) >= 2:
        res.nontriv(history)
        res.label('non-trivial', case)
    if len(set((h[0], h[1]) for h in history)) < len(history):
        res.label('same-document-repeated')
    strict_after_error = False
    for a, b in zip(history, history[1:]):
        if not b[2]:
            strict_after_error = True
    if strict_after_error:
        res.label('strict-after-other-parse')


def all_jobs():
    jobs = []
    for recipe_doc in POOL:
        for recipe in sorted(set([recipe_doc[0]])):
            for tol in (False, True):
                jobs.append({'recipe': recipe, 'source': recipe_doc[1], 'tolerant': tol})
    return jobs


# fresh-interpreter results, computed once in plan() and inherited by the forked shard workers
# (no file: two runs at the same time must not see each other's table)
_TABLE = {}


def build_table():
    if _TABLE:
        return _TABLE
    jobs = all_jobs()
    outs = fresh.fresh_many(jobs)
    table = {}
    for j, o in zip(jobs, outs):
        if o and o[0] == 'fresh-interpreter-failed':
            raise HarnessError('fresh interpreter failed for %r: %s' % (j, o[1]))
        table[job_key(j['recipe'], j['source'], j['tolerant'])] = o
    _TABLE.update(table)
    return _TABLE


def history_strategy(maxlen):
    from hypothesis import strategies as st
    step = st.tuples(st.sampled_from(POOL), st.booleans()).map(lambda t: (t[0][0], t[0][1], t[1]))
    return st.lists(step, min_size=2, max_size=maxlen)


def plan(tier, seed):
    build_table()
    n, maxlen = (480, 8) if tier == 'quick' else (8000, 20)
    shards = [('orderings', k) for k in range(NSHARDS)]
    shards += [('random', n // NSHARDS, maxlen, seed * 1000 + k) for k in range(NSHARDS)]
    return {'shards': shards,
            'bounds': {'pool_documents': len(POOL), 'fresh_interpreters': len(all_jobs()),
                       'orderings': 336 * 2, 'random_histories': n, 'max_steps': maxlen},
            'required_classes': ['non-trivial', 'same-document-repeated', 'outcome:tree',
                                 'outcome:error', 'strict-after-other-parse', 'fresh-database-per-parse']}


def run_shard(shard, res):
    table = build_table()
    if shard[0] == 'orderings':
        _, k = shard
        i = 0
        for subset in itertools.combinations(range(len(SUSPICIOUS)), 3):
            for perm in itertools.permutations(subset):
                for tol in (False, True):
                    if i % NSHARDS == k:
                        h = [(SUSPICIOUS[j][0], SUSPICIOUS[j][1], tol) for j in perm]
                        # parse the first document twice: the repeated parse is where leaked
                        # state shows
                        h = h + [h[0]]
                        record(h, run_history_forked(h, table), res)
                    i += 1
        j = 0
        for doc in SUSPICIOUS_MORE:
            for other in SUSPICIOUS_MORE:
                for tol in (False, True):
                    j += 1
                    if j % NSHARDS != k:
                        continue
                    h = [(doc[0], doc[1], tol), (other[0], other[1], tol), (doc[0], doc[1], tol)]
                    record(h, run_history_forked(h, table), res)
        if k == 0:
            for doc in FRESH_DOCS:
                for tol in (False, True):
                    h = [(doc[0], doc[1], tol), (doc[0], doc[1], tol)]
                    record(h, run_history_forked(h, table), res)
            res.label('fresh-database-per-parse')
        res.exhaustive = True
    else:
        _, n, maxlen, seed = shard
        hyp_run(history_strategy(maxlen),
                lambda h: record(h, run_history_forked(h, table), res), n, seed)


def check_case(case, res):
    history = [tuple(h) for h in case['history']]
    jobs = [{'recipe': r, 'source': s, 'tolerant': t} for r, s, t in history]
    outs = fresh.fresh_many(jobs, workers=8)
    table = {job_key(j['recipe'], j['source'], j['tolerant']): o for j, o in zip(jobs, outs)}
    record(history, run_history_forked(history, table), res)


def minimise(case, key):
    history = [tuple(h) for h in case['history']]
    jobs = [{'recipe': r, 'source': s, 'tolerant': t} for r, s, t in history]
    outs = fresh.fresh_many(jobs, workers=8)
    table = {job_key(j['recipe'], j['source'], j['tolerant']): o for j, o in zip(jobs, outs)}

    def pred(h):
        r = Result()
        record(list(h), run_history_forked(list(h), table), r)
        return key in r.failures
    return {'history': [list(h) for h in ddmin(history, pred)]}
