"""C05 -- strict mode rejects unbalanced markup and fails only with a located
LatexWalkerParseError."""
from .. import soups, px, contexts, monitor, docgrammar
from ..alphabets import SIG, SIG_SMALL, EVERYTYPE_TOKENS, STRUCTURAL
from ..engine import exc_key, exc_detail, ddmin, hyp_run, Result
from ..models import minitok
from ..treedump import walk, kind
from ..contexts import EXTRA_TOKENS, OPTIONS_TOKENS
from ..alphabets import LEGACY
from .c20 import model as linecol_model

ID = 'C05'
LEVEL = 'fault_enumeration'
RULE = ('(a) bounded-exhaustive token soups over the LaTeX-significant alphabet (default context) '
        'and over a reduced alphabet plus the every-argument-type context tokens, strict parse: '
        'outcome must be a tree or an exception that isinstance LatexWalkerParseError with '
        '0 <= pos <= len(input) and (lineno, colno) equal to the counting model at pos; '
        '(b) fault injection: for each Hypothesis-generated well-formed document (verbatim-free '
        'grammar), every lexical token boundary outside comments x every fault token in '
        '{ {, }, $, \\(, \\), \\[, \\], \\begin{x}, \\end{x}, \\begin{itemize}, \\end{itemize} } is '
        'inserted and the result must raise LatexWalkerParseError; (c) thorough tier: atheris '
        'campaigns with oracle (a) inside the target. Walker line/column offsets are varied per '
        'input (checksum-chosen) in (a). Accepted soups are audited: every active brace, dollar sign, \\begin / \\end token '
        'is the delimiter of a group / formula / environment node of the result. '
        'Non-trivial = (a) soups '
        'containing >= 1 structural token (distinct by construction), (b) every injected case '
        '(distinct by (document, offset, fault)).')
ASSUMPTIONS = [
    'a single inserted unescaped delimiter outside verbatim/comments changes the parity of its '
    'kind, so no correct parser can accept the faulty document',
    'token boundaries come from an independent mini tokenizer (pv/models/minitok.py)',
]
NSHARDS = 16
ALPHA_EVERY = SIG_SMALL + EVERYTYPE_TOKENS
ALPHAS = {'SIG': SIG, 'EVERY': ALPHA_EVERY, 'SMALL': SIG_SMALL, 'EXTRA': EXTRA_TOKENS,
          'OPTIONS': OPTIONS_TOKENS, 'LEGACY': LEGACY}
FAULTS = ['{', '}', '$', '\\(', '\\)', '\\[', '\\]', '\\begin{x}', '\\end{x}',
          '\\begin{itemize}', '\\end{itemize}', '\\begin{equation}', '\\end{equation}']
# an opening verbatim-type environment that is never closed (default context only: these
# environments are declared there)
FAULTS_DEFAULT_ONLY = ['\\begin{verbatim}', '\\begin{lstlisting}']

_CTX = {}


def ctx(name):
    if name not in _CTX:
        _CTX[name] = contexts.build(name)
    return _CTX[name]


def plan(tier, seed):
    if tier == 'quick':
        L, LE, ndocs = 3, 3, 480
    else:
        L, LE, ndocs = 4, 4, 8000
    shards = [('soup', 'default', 'SIG', L, k) for k in range(NSHARDS)]
    shards += [('soup', 'every', 'EVERY', LE, k) for k in range(NSHARDS)]
    shards += [('soup', 'every-nounknown', 'EVERY', 2 if tier == 'quick' else 3, k)
               for k in range(NSHARDS)]
    shards += [('soup', 'extra', 'EXTRA', 3 if tier == 'quick' else 4, k) for k in range(NSHARDS)]
    shards += [('soup', 'options', 'OPTIONS', 3 if tier == 'quick' else 4, k) for k in range(NSHARDS)]
    shards += [('soup', 'default', 'LEGACY', 3 if tier == 'quick' else 4, k) for k in range(NSHARDS)]
    shards += [('inject', ndocs // NSHARDS, seed * 1000 + k) for k in range(NSHARDS)]
    shards += [('unclosed',)]
    if tier != 'quick':
        shards += [('fuzz', FUZZ_RUNS, seed * 100 + k + 1) for k in range(NSHARDS)]
    return {'shards': shards,
            'bounds': {'soup_len_default': L, 'soup_len_everytype': LE, 'documents': ndocs,
                       'faults': FAULTS},
            'required_classes': ['soup:tree', 'soup:parse-error', 'inject:rejected',
                                 'fault:{', 'fault:}', 'fault:$', 'fault:\\begin{x}',
                                 'fault:\\end{x}', 'fault:\\)', 'fault:\\]', 'unclosed-opener',
                                 'error-on-first-line:non-default', 'error-offsets:default']}


# (line_number_offset, first_line_column_offset, column_offset) given to the walker; the location
# of an error must be consistent with them.  Chosen per input by a checksum, so that every soup
# is checked with the defaults or with one non-default set (C20 covers the calculator itself).
ERR_OFFSETS = [(None, 0, 0), (None, 0, 0), (10, 3, 2), (0, 0, 5), (1, 7, 0), (3, 0, 0)]


def offsets_for(s):
    import zlib
    return ERR_OFFSETS[zlib.crc32(s.encode('utf-8', 'surrogatepass')) % len(ERR_OFFSETS)]


def strict_outcome(s, ctxname, off=None):
    """('tree', nodelist) | ('error', exc) | ('foreign', exc) | ('nonterm', exc)"""
    PE = px.parse_error_class()
    kw = {}
    if off is not None:
        # only what differs from the defaults is passed
        if off[0] is not None:
            kw['line_number_offset'] = off[0]
        if off[1]:
            kw['first_line_column_offset'] = off[1]
        if off[2]:
            kw['column_offset'] = off[2]
    try:
        w, nl = px.parse(s, ctx(ctxname), tolerant=False, **kw)
        return 'tree', nl
    except PE as e:
        return 'error', e
    except monitor.NonTermination as e:
        return 'nonterm', e
    except Exception as e:
        return 'foreign', e


VERBATIM_ENVIRONMENTS = ('verbatim', 'verbatim*', 'lstlisting', 'vcode')


def unaccounted_braces(s, nl):
    """positions of active structure characters of an *accepted* input -- braces, dollar signs,
    \\begin{..} / \\end{..} tokens, found by the independent lexer (not escaped, not in a comment)
    -- that are neither the delimiter of a group / math / environment node of the result nor inside
    a verbatim argument or verbatim environment: such a token was swallowed"""
    from ..treedump import argspec_str
    if not (any(c in s for c in '{}$') or '\\begin' in s or '\\end' in s):
        return []
    ok = set()
    spans = []
    envs = []
    for n in walk(nl):
        k = kind(n)
        if k in ('group', 'math'):
            d = getattr(n, 'delimiters', None) or ('', '')
            if d[0] and n.pos is not None:
                ok.update(range(n.pos, n.pos + len(d[0])))
            if d[1] and n.pos_end is not None:
                ok.update(range(n.pos_end - len(d[1]), n.pos_end))
        if k == 'environment':
            if n.environmentname in VERBATIM_ENVIRONMENTS:
                # verbatim up to and including the last \end{name} inside the node's span (what a
                # node claims beyond that is not verbatim text)
                import re as _re
                ends = [m.end() for m in _re.finditer(r'\\end\s*\{' + _re.escape(n.environmentname)
                                                      + r'\}', s[n.pos:n.pos_end])]
                spans.append((n.pos, n.pos + ends[-1] if ends else n.pos_end))
            envs.append(n)
        argd = getattr(n, 'nodeargd', None)
        if argd is not None:
            if 'Verbatim' in type(argd).__name__:
                spans.append((n.pos, n.pos_end))
            specs = getattr(argd, 'arguments_spec_list', None) or []
            for a, sp in zip(getattr(argd, 'argnlist', None) or [], specs):
                t = argspec_str(sp)
                if a is not None and (t.startswith('v') or 'Verbatim' in t) and \
                        getattr(a, 'pos', None) is not None:
                    spans.append((a.pos, a.pos_end))
    # lex the stretches between the verbatim spans separately (after a verbatim construct the
    # lexical structure starts afresh: \verb\[\ followed by \} is verbatim + an escaped brace)
    toks = []
    prev = 0
    for a, b in sorted(spans) + [(len(s), len(s))]:
        if a > prev:
            toks += [(k, x + prev, y + prev) for k, x, y in minitok.tokens(s[prev:a])]
        prev = max(prev, b)
    active = [(a, b) for k, a, b in toks if (k == 'ch' and s[a] in '{}$') or k in ('begin', 'end')]
    for n in envs:
        for kk, a, b in toks:
            if (kk == 'begin' and a == n.pos) or (kk == 'end' and b == n.pos_end):
                ok.update(range(a, b))
    # a token only counts where the innermost node containing it was parsed with the corresponding
    # feature switched on (chars-only argument parsers switch macros, math ... off)
    nodes = [(n.pos, n.pos_end, n.parsing_state) for n in walk(nl)
             if kind(n) != 'list' and getattr(n, 'pos', None) is not None
             and getattr(n, 'pos_end', None) is not None and getattr(n, 'parsing_state', None) is not None]

    def enabled(a):
        best = None
        for x, y, ps in nodes:
            if x <= a < y and (best is None or (y - x) <= (best[1] - best[0])):
                best = (x, y, ps)
        if best is None:
            return True
        ps = best[2]
        if s[a] in '{}':
            return bool(ps.enable_groups)
        if s[a] == '$':
            return bool(ps.enable_math)
        return bool(ps.enable_environments and ps.enable_macros)
    return [a for a, b in active if not all(p in ok for p in range(a, b))
            and not any(x <= a < y for x, y in spans) and enabled(a)]


def check_soup(s, ctxname, res, case):
    res.case()
    off = tuple(case['off']) if case.get('off') else offsets_for(s)
    case = dict(case, off=list(off))
    kind, val = strict_outcome(s, ctxname, off)
    if kind == 'tree':
        res.label('soup:tree')
        if val is None:
            res.fail('c05:none-result', 'strict parse returned None', case)
            return
        if any(c in s for c in '{}$') or '\\begin' in s or '\\end' in s:
            bad = unaccounted_braces(s, val)
            res.label('soup:accepted-with-structure')
            if bad:
                what = {'{': 'opening-brace', '}': 'closing-brace', '$': 'dollar'}.get(
                    s[bad[0]], 'begin-or-end')
                res.fail('c05:accepted:token-outside-any-construct:%s' % what,
                         'strict mode accepted %r although the %s at offset %d is not the '
                         'delimiter of any group / formula / environment of the result'
                         % (s, what, bad[0]), case)
        return
    if kind == 'foreign':
        res.fail(exc_key(val), exc_detail(val), case)
        return
    if kind == 'nonterm':
        res.fail(monitor.nonterm_key(val), 'strict parse does not terminate', case)
        return
    e = val
    what = (e.error_type_info or {}).get('what', '?') if isinstance(
        getattr(e, 'error_type_info', None), dict) else '?'
    res.label('soup:parse-error')
    res.label('error-what:' + str(what), case)
    pos = getattr(e, 'pos', None)
    if not isinstance(pos, int) or not (0 <= pos <= len(s)):
        res.fail('c05:error-pos-out-of-input:' + str(what),
                 'error pos=%r for input of length %d (%s)' % (pos, len(s), e.msg), case)
        return
    exp = linecol_model(s, pos, off[0], off[1], off[2])
    res.label('error-offsets:' + ('default' if off == (None, 0, 0) else 'non-default'))
    if pos <= (s.find('\n') if '\n' in s else len(s)):
        res.label('error-on-first-line:' + ('default' if off == (None, 0, 0) else 'non-default'))
    if (e.lineno, e.colno) != exp:
        res.fail('c05:error-linecol:' + str(what),
                 'error at pos %d reports line/col %r/%r, expected %r'
                 % (pos, e.lineno, e.colno, exp), case)


def host_class(src, off):
    """coarse description of where a fault lands (for the evidence classes)"""
    before = src[:off]
    depth = before.count('{') - before.count('}')
    inm = before.count('$') % 2 == 1
    if before.rstrip().endswith(('\\textbf', '\\frac', '\\sqrt', '\\mmand', '\\mm', '\\emph')):
        return 'argument-position'
    if before.count('[') > before.count(']'):
        return 'in-brackets'
    if inm:
        return 'in-dollar-math'
    if before.count('\\begin') > before.count('\\end'):
        return 'in-environment'
    return 'in-group' if depth > 0 else 'top-level'


def check_inject(src, ctxname, off, fault, res, case):
    res.case()
    faulty = src[:off] + fault + src[off:]
    kind, val = strict_outcome(faulty, ctxname)
    res.nontriv((ctxname, src, off, fault))
    res.label('fault:' + fault)
    res.label('host:' + host_class(src, off), case)
    if kind == 'error':
        res.label('inject:rejected')
        # ... and the rejection is located
        pos = getattr(val, 'pos', None)
        eti = getattr(val, 'error_type_info', None)
        what = eti.get('what', '?') if isinstance(eti, dict) else '?'
        if not isinstance(pos, int) or not (0 <= pos <= len(faulty)):
            res.fail('c05:error-pos-out-of-input:' + str(what),
                     'error pos=%r for input of length %d: %r' % (pos, len(faulty), faulty), case)
        elif (val.lineno, val.colno) != linecol_model(faulty, pos, None, 0, 0):
            res.fail('c05:error-linecol:' + str(what), 'error at pos %d of %r reports %r/%r, '
                     'expected %r' % (pos, faulty, val.lineno, val.colno,
                                      linecol_model(faulty, pos, None, 0, 0)), case)
        return
    if kind == 'tree':
        res.fail('c05:accepted:%s:%s' % (fault, host_class(src, off)),
                 'unbalanced document accepted in strict mode: %r' % faulty, case)
    elif kind == 'foreign':
        res.fail(exc_key(val), exc_detail(val) + ' on %r' % faulty, case)
    else:
        res.fail(monitor.nonterm_key(val), 'strict parse does not terminate on %r' % faulty, case)


FUZZ_RUNS = 30000


def fuzz_case(s, i):
    return {'kind': 'src', 'ctx': ('default', 'extra', 'every')[i % 3], 'src': s}


# something opened by the less common argument / body parsers and not closed before the end of
# input: (context, opener); each is followed by every tail of TAILS and must be rejected
UNCLOSED = [('extra', '\\begin{vcode}'), ('extra', '\\mchars{'), ('extra', '\\mcomma{'),
            ('extra', '\\mcommak{a,'), ('extra', '\\me^{'), ('extra', '\\many('),
            ('extra', '\\mtack{a}\\ta{'), ('extra', '\\msn{'),
            ('options', '\\orr('), ('options', '\\odd('), ('options', '\\omark+{'),
            ('options', '\\ofull{'), ('options', '\\begin{oenv}*('), ('options', '\\olegacy*['),
            ('every', '\\mv|'), ('every', '\\mvb{'), ('every', '\\mr<'), ('every', '\\md<'),
            ('every', '\\mo['), ('every', '\\begin{esd}('), ('every', '!{'),
            ('default', '\\verb|'), ('default', '\\begin{verbatim}'),
            ('default', '\\begin{lstlisting}[a]'), ('default', '\\begin{lstlisting}['),
            ('default', '\\sqrt['), ('default', '\\begin{tabular}{')]
TAILS = ['', 'a', ' a b', 'a\n\nb', '\\textbf{a}', '{a}', '$a$', 'a % c', 'a\n']


def run_unclosed(res):
    for ctxname, opener in UNCLOSED:
        for tail in TAILS:
            for lead in ('', 'x '):
                src = lead + opener + tail
                res.case()
                case = {'kind': 'unclosed', 'ctx': ctxname, 'src': src}
                kind, val = strict_outcome(src, ctxname)
                res.nontriv((ctxname, src))
                res.label('unclosed-opener', case)
                must_reject = opener.endswith('{') or '\\begin{' in opener
                if kind == 'tree' and not must_reject:
                    # an unclosed bracket / verbatim / delimited argument is not among the
                    # unbalanced constructs the statement names: tree or located error
                    res.label('unclosed-opener:accepted-non-brace')
                elif kind == 'tree':
                    res.fail('c05:accepted:unclosed:' + opener.strip('\\')[:12],
                             'strict mode accepted %r although %r is never closed'
                             % (src, opener), case)
                elif kind == 'foreign':
                    res.fail(exc_key(val), exc_detail(val) + ' on %r' % src, case)
                elif kind == 'nonterm':
                    res.fail(monitor.nonterm_key(val), 'does not terminate on %r' % src, case)
    res.exhaustive = True


def run_shard(shard, res):
    if shard[0] == 'unclosed':
        run_unclosed(res)
        return
    if shard[0] == 'fuzz':
        from .. import fuzz
        fuzz.campaign(ID, shard[1], shard[2], res)
        return
    if shard[0] == 'soup':
        _, ctxname, alpha, L, k = shard
        for toks in soups.enum_tokens(ALPHAS[alpha], L, k, NSHARDS):
            case = {'kind': 'soup', 'ctx': ctxname, 'tokens': list(toks)}
            check_soup(''.join(toks), ctxname, res, case)
            if any(t in STRUCTURAL or t in EVERYTYPE_TOKENS or t in EXTRA_TOKENS or t in OPTIONS_TOKENS
                   or t in LEGACY for t in toks):
                res.nontriv_distinct()
        res.exhaustive = True
    else:
        _, n, seed = shard

        def one(doc):
            signame, src = doc
            ctxname = docgrammar.CTX_OF[signame]
            kind, val = strict_outcome(src, ctxname)
            if kind != 'tree':
                res.label('inject:base-document-not-accepted')
                return          # C02's business; cannot inject into it
            faults = FAULTS + FAULTS_DEFAULT_ONLY if ctxname == 'default' else \
                [f.replace('{itemize}', '{eplain}').replace('{equation}', '{emath}')
                 for f in FAULTS]
            for off in minitok.boundaries(src):
                for fault in faults:
                    case = {'kind': 'inject', 'ctx': ctxname, 'src': src, 'off': off,
                            'fault': fault}
                    check_inject(src, ctxname, off, fault, res, case)
        hyp_run(docgrammar.source_strategy(('default-noverb', 'every-noverb'), depth=3), one,
                n, seed)


def check_case(case, res):
    if case['kind'] == 'unclosed':
        res.case()
        kind, val = strict_outcome(case['src'], case['ctx'])
        if kind == 'tree':
            res.fail('c05:accepted:unclosed:replay', 'accepted %r' % case['src'], case)
        elif kind == 'foreign':
            res.fail(exc_key(val), exc_detail(val), case)
        return
    if case['kind'] == 'src':
        check_soup(case['src'], case['ctx'], res, case)
        if any(c in case['src'] for c in '\\{}$[]'):
            res.nontriv(case['src'])
        return
    if case['kind'] == 'soup':
        check_soup(''.join(case['tokens']), case['ctx'], res, case)
    else:
        check_inject(case['src'], case['ctx'], case['off'], case['fault'], res, case)


def minimise(case, key):
    if case['kind'] == 'unclosed':
        return case
    if case['kind'] == 'src':
        def pred(t):
            r = Result()
            check_case(dict(case, src=''.join(t)), r)
            return key in r.failures
        return dict(case, src=''.join(ddmin(list(case['src']), pred)))
    if case['kind'] == 'soup':
        def pred(t):
            r = Result()
            check_case(dict(case, tokens=list(t)), r)
            return key in r.failures
        return dict(case, tokens=ddmin(case['tokens'], pred))
    # injected: shrink the document around the fault, keeping it a valid base document
    src, off, fault, ctxname = case['src'], case['off'], case['fault'], case['ctx']
    marker = '\x00'
    chars = list(src[:off]) + [marker] + list(src[off:])

    def pred(t):
        if t.count(marker) != 1:
            return False
        i = t.index(marker)
        s2 = ''.join(t[:i] + t[i + 1:])
        if strict_outcome(s2, ctxname)[0] != 'tree':
            return False
        if i not in minitok.boundaries(s2):
            return False
        r = Result()
        check_inject(s2, ctxname, i, fault, r, {})
        return key in r.failures
    t = ddmin(chars, pred)
    i = t.index(marker)
    return dict(case, src=''.join(t[:i] + t[i + 1:]), off=i)
