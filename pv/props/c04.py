"""C04 -- encoder output equals the documented rule semantics."""
import re
import unicodedata

from ..engine import exc_key, exc_detail, ddmin, Result, hyp_run
from ..models import encoder_model as M
from ..models import minitok

ID = 'C04'
LEVEL = 'exploration'
RULE = ('Hypothesis draws (string, configuration) pairs: strings over a 17-character alphabet on '
        'which the generated rules overlap, mixed with arbitrary code points (control, combining, '
        'astral, unassigned) and every character that has a built-in rule; configurations = rule '
        'lists of 1-4 rules mixing RULE_DICT / RULE_REGEX (string templates with group references '
        'and callables) / RULE_CALLABLE (multi-character consumption, optional u2lobj parameter), '
        'optional per-rule protection, optional trailing built-in set, 6 protection schemes, 6 '
        'unknown-character policies, non_ascii_only, str and chunk-recording result classes. '
        'Oracle: 60-line transcription of the documented loop interpreting the plain-data rule '
        'descriptors; equality of the chunk list and of the joined string; ValueError iff the '
        'model reaches an unknown character under fail. Also: enc(a+b) = enc(a)+enc(b) at '
        'NFC-stable split points for the per-character built-in rules; PartialLatexToLatexEncoder '
        '= base model + "copy one LaTeX token at a keep character" (token length from an '
        'independent mini tokenizer) and never raises; the cached module-level unicode_to_latex() '
        'equals a fresh encoder over call histories. With blanks among keep_latex_chars: kept blanks and the token after them are '
        'copied, the rest follows the default rules. A caller editing the list returned by '
        'get_builtin_conversion_rules() does not change later built-in encoders. '
        'Non-trivial = >= 2 rules could match at some '
        'position, or consumption > 1, or a per-rule protection override applied; distinct by '
        '(string, configuration).')
ASSUMPTIONS = [
    'regex rules never match the empty string (such a rule cannot advance; not generated)',
    "'replace' and 'unihex' outputs are judged by predicate (ASCII, contains '?' / 'U+XXXX'), "
    'not by exact text',
    'an unmatched DEL (U+007F) is not generated: "printable ASCII" vs the implemented 32..127 '
    'pass-through range differ only there',
]
NSHARDS = 16

ALPHA = ['a', 'b', 'c', 'A', 'B', 'e', 'é', 'ü', '∞', '—', ' ', '.', '%', '\\',
         '{', '́', '\x7f']
REPLS = ['\\x', '\\xx ', '{\\y}', 'Z', '', '\\textbf{q}', '\\^\\i', 'é', '\\&', '\\z1',
         '\\ensuremath{\\w}']
PATTERNS = [('ab', 'tpl', '\\\\AB'), ('[abc]+', 'tpl', '{\\g<0>}'), ('[A-Z]{2,}', 'tpl', '{\\g<0>}'),
            ('a|bc', 'fn', None), ('\\.\\.\\.', 'tpl', '\\\\ldots'), ('(a)(b)?', 'tpl', '\\2\\1!'),
            ('é+', 'fn', None), ('[ab]∞', 'tpl', '\\\\q'),
            # patterns whose match depends on the text *around* the current position
            ('\\bab\\b', 'tpl', '\\\\W'), ('(?<=a)b', 'tpl', '\\\\Bh'), ('^a', 'tpl', '\\\\S'),
            ('(?<![a-z])c', 'fn', None), ('b(?=c)', 'tpl', '\\\\Bc'), ('e$', 'tpl', '\\\\E')]
PREFIXES = [('ab', 2, '\\AB'), ('a', 1, '\\A'), ('∞∞', 2, '\\inftwo'), ('b', 1, 'bb'),
            ('. ', 2, '\\dotsp'), ('é', 1, "\\'e"), ('Ab', 1, '\\Ax'), ('%', 1, '\\%')]
PROTS = ['none', 'braces', 'braces-all', 'braces-almost-all', 'braces-after-macro', 'callable']
POLICIES = ['keep', 'replace', 'ignore', 'fail', 'unihex', 'callable']


class Chunks(object):
    def __init__(self):
        self.chunks = []

    def __iadd__(self, s):
        self.chunks.append(s)
        return self


def config_strategy():
    from hypothesis import strategies as st
    prot = st.one_of(st.none(), st.none(), st.sampled_from(PROTS))
    rdict = st.tuples(st.dictionaries(st.sampled_from(ALPHA), st.sampled_from(REPLS), min_size=1,
                                      max_size=4), prot).map(
        lambda t: {'type': 'dict', 'map': t[0], 'prot': t[1]})
    rregex = st.tuples(st.lists(st.sampled_from(PATTERNS), min_size=1, max_size=3), prot).map(
        lambda t: {'type': 'regex', 'items': [list(x) for x in t[0]], 'prot': t[1]})
    rcall = st.tuples(st.lists(st.sampled_from(PREFIXES), min_size=1, max_size=3), prot,
                      st.booleans()).map(
        lambda t: {'type': 'call', 'table': [list(x) for x in t[0]], 'prot': t[1], 'u2lobj': t[2]})
    builtin = st.sampled_from(['defaults', 'unicode-xml']).map(
        lambda n: {'type': 'builtin', 'name': n})
    def place(t):
        custom, b, where, second = t
        out = list(custom)
        if b:
            out.insert(where % (len(out) + 1), b)       # a built-in set anywhere in the order
            if second and second['name'] != b['name']:
                out.append(second)
        return out
    rules = st.tuples(st.lists(st.one_of(rdict, rregex, rcall), min_size=1, max_size=4),
                      st.one_of(st.none(), builtin), st.integers(0, 7),
                      st.one_of(st.none(), st.none(), builtin)).map(place)
    return st.fixed_dictionaries({
        'rules': rules,
        'protection': st.sampled_from(PROTS),
        'policy': st.sampled_from(POLICIES + ['callable-u2lobj']),
        'non_ascii_only': st.booleans(),
    })


def string_strategy(extra):
    from hypothesis import strategies as st
    ch = st.one_of(st.sampled_from(ALPHA), st.sampled_from(ALPHA), st.sampled_from(ALPHA),
                   st.sampled_from(extra),
                   st.characters(blacklist_categories=('Cs',)))
    return st.lists(ch, max_size=30).map(''.join)


_BUILTIN = {}


def builtin_tables():
    if not _BUILTIN:
        from pylatexenc.latexencode import get_builtin_conversion_rules, RULE_DICT
        for name in ('defaults', 'unicode-xml'):
            t = {}
            for rule in get_builtin_conversion_rules(name):
                if rule.rule_type == RULE_DICT:
                    for k, v in rule.rule.items():
                        t.setdefault(k, v)
            _BUILTIN[name] = t
    return _BUILTIN


def build_rules(descs):
    from pylatexenc.latexencode import (UnicodeToLatexConversionRule, RULE_DICT, RULE_REGEX,
                                        RULE_CALLABLE)
    out = []
    for d in descs:
        prot = d.get('prot')
        if prot == 'callable':
            prot = lambda r: '<' + r + '>'      # noqa
        if d['type'] == 'builtin':
            out.append(d['name'])
        elif d['type'] == 'dict':
            out.append(UnicodeToLatexConversionRule(RULE_DICT, {ord(k): v for k, v in d['map'].items()},
                                                    replacement_latex_protection=prot))
        elif d['type'] == 'regex':
            items = []
            for pattern, replkind, repl in d['items']:
                if replkind == 'fn':
                    items.append((re.compile(pattern), lambda m: '[' + m.group() + ']'))
                else:
                    items.append((re.compile(pattern), repl))
            out.append(UnicodeToLatexConversionRule(RULE_REGEX, items,
                                                    replacement_latex_protection=prot))
        else:
            table = [tuple(x) for x in d['table']]
            if d.get('u2lobj'):
                def fn(s, pos, u2lobj, table=table):
                    assert u2lobj is not None
                    for prefix, consumed, repl in table:
                        if s.startswith(prefix, pos):
                            return (consumed, repl)
                    return None
            else:
                def fn(s, pos, table=table):
                    for prefix, consumed, repl in table:
                        if s.startswith(prefix, pos):
                            return (consumed, repl)
                    return None
            out.append(UnicodeToLatexConversionRule(RULE_CALLABLE, fn,
                                                    replacement_latex_protection=prot))
    return out


_POLICY_SAW = {}


def make_encoder(cfg, cls=None, string_class=None):
    from pylatexenc.latexencode import UnicodeToLatexEncoder
    kw = dict(conversion_rules=build_rules(cfg['rules']),
              non_ascii_only=cfg.get('non_ascii_only', False),
              unknown_char_warning=False)
    p = cfg.get('protection', 'braces')
    kw['replacement_latex_protection'] = (lambda r: '<' + r + '>') if p == 'callable' else p
    pol = cfg.get('policy', 'keep')
    if pol == 'callable-u2lobj':
        # a policy callable that asks for the encoder object
        seen = []

        def policy(ch, u2lobj):
            seen.append(u2lobj)
            return '(U%d)' % ord(ch)
        kw['unknown_char_policy'] = policy
        kw['_seen'] = seen
    else:
        kw['unknown_char_policy'] = (lambda ch: '(U%d)' % ord(ch)) if pol == 'callable' else pol
    seen = kw.pop('_seen', None)
    if string_class is not None:
        kw['latex_string_class'] = string_class
    enc = (cls or UnicodeToLatexEncoder)(**kw)
    _POLICY_SAW[id(enc)] = (enc, seen)       # (nothing is attached to the library's object)
    if len(_POLICY_SAW) > 64:
        _POLICY_SAW.clear()
        _POLICY_SAW[id(enc)] = (enc, seen)
    return enc


def sanitize(s, cfg):
    """DEL only where a dict rule maps it (see ASSUMPTIONS)"""
    mapped = any(r['type'] == 'dict' and '\x7f' in r['map'] for r in cfg['rules'])
    if not mapped:
        s = s.replace('\x7f', 'a')
    return s


def nontrivial(s, cfg):
    s2 = unicodedata.normalize('NFC', s)
    tables = builtin_tables()
    over = False
    for pos in range(len(s2)):
        hits = 0
        for rule in cfg['rules']:
            m = M.match_rule(rule, s2, pos, tables)
            if m is not None:
                hits += 1
                if m[0] > 1 or rule.get('prot'):
                    over = True
        if hits >= 2:
            over = True
    return over


def compare_chunks(got, want):
    """the concatenated result is what the statement is about; how the encoder slices it into
    += operations on the result object is its own business.  Chunks described by a predicate
    (output of the 'replace' / 'unihex' policies) become a pattern."""
    try:
        text = ''.join(got)
    except TypeError:
        return False
    pat = ''
    for w in want:
        if isinstance(w, M.Pred):
            if w.what == 'replace':
                pat += r'[\x00-\x7f]*?\?[\x00-\x7f]*?'
            else:
                pat += r'[\x00-\x7f]*?(?i:U\+%04X)[\x00-\x7f]*?' % ord(w.ch)
        else:
            pat += re.escape(w)
    return re.fullmatch(pat, text, re.DOTALL) is not None


def check_pair(s, cfg, res, case):
    res.case()
    tables = builtin_tables()
    try:
        want = M.encode(s, cfg, tables)
        want_fail = False
    except M.Fail:
        want, want_fail = None, True
    results = {}
    for label, sc in (('chunks', Chunks), ('str', None)):
        try:
            enc = make_encoder(cfg, string_class=sc)
            if sc is not None:
                try:
                    enc.unicode_to_latex('a' + s[:3])     # an earlier call on the same object
                except ValueError:
                    pass
            r = enc.unicode_to_latex(s)
            results[label] = ('ok', r.chunks if sc else r)
            saw = _POLICY_SAW.get(id(enc), (None, None))[1]
            if saw and any(o is not enc for o in saw):
                res.fail('c04:policy-callable-got-wrong-u2lobj', 'the unknown_char_policy callable '
                         'was given %r as u2lobj' % (saw[:1],), case)
                return
        except ValueError as e:
            results[label] = ('ValueError', e)
        except Exception as e:
            res.fail(exc_key(e), exc_detail(e), case)
            return
    res.label('policy:' + cfg['policy'])
    for r in cfg['rules']:
        res.label('rule:' + r['type'])
    for label, (outcome, val) in results.items():
        if want_fail:
            if outcome != 'ValueError':
                res.fail('c04:fail-policy-did-not-raise', 'unknown character under policy fail, '
                         'encoder returned %r' % (val,), case)
                return
            continue
        if outcome == 'ValueError':
            res.fail('c04:unexpected-ValueError:%s' % cfg['policy'], exc_detail(val), case)
            return
    if want_fail:
        res.label('outcome:fail-raised')
        return
    got_chunks = results['chunks'][1]
    got_str = results['str'][1]
    if not compare_chunks(got_chunks, want):
        # locate the first differing chunk for the bucket key
        which = 'unknown-policy' if any(isinstance(w, M.Pred) for w in want) else 'chunk'
        res.fail('c04:chunks-differ:%s:%s' % (which, cfg['policy'] if which != 'chunk' else
                                              'prot=%s' % cfg['protection']),
                 'input %r: encoder chunks %r, documented rule semantics give %r'
                 % (s, got_chunks, want), case)
        return
    if ''.join(got_chunks) != got_str:
        res.fail('c04:result-classes-differ', 'str result %r, chunk result %r'
                 % (got_str, got_chunks), case)


def check_concat(a, b, opts, res):
    """enc(a+b) == enc(a)+enc(b) for the per-character built-in rules"""
    if unicodedata.normalize('NFC', a + b) != unicodedata.normalize('NFC', a) + \
            unicodedata.normalize('NFC', b):
        return
    res.case()
    cfg = {'rules': [{'type': 'builtin', 'name': opts['set']}], 'protection': opts['prot'],
           'policy': opts['policy'], 'non_ascii_only': opts['nao']}
    case = {'kind': 'concat', 'a': a, 'b': b, 'opts': opts}
    try:
        enc = make_encoder(cfg)
        whole, pa, pb = enc.unicode_to_latex(a + b), enc.unicode_to_latex(a), enc.unicode_to_latex(b)
    except Exception as e:
        res.fail(exc_key(e), exc_detail(e), case)
        return
    res.label('concat-law')
    if whole != pa + pb:
        res.fail('c04:concatenation-law', 'enc(%r + %r) = %r but enc(a)+enc(b) = %r'
                 % (a, b, whole, pa + pb), case)


KEEP_DEFAULT = '\\${}^_'
PARTIAL_ALPHA = ['e\u0301', 'A\u0308',      # decomposed: the input is normalised before anything else
                 '\\', '$', '{', '}', '^', '_', 'a', 'b', 'é', '∞', ' ', '\n', '%', '&',
                 '\\begin{x}', '\\end{x}', '\\alpha', "\\'", '\\begin', '~', '#']


def partial_model(s, tables, keep=KEEP_DEFAULT):
    """(chunks or None if some token is malformed, so only totality is demanded)"""
    s = unicodedata.normalize('NFC', s)
    toks = {a: (k, b) for k, a, b in minitok.tokens(s)}
    out = []
    pos = 0
    wellformed = True
    while pos < len(s):
        ch = s[pos]
        if ch in keep:
            k, end = toks.get(pos, (None, None))
            if k is None:
                return None     # keep character inside another token: not modelled
            if k == 'lone-escape':
                return None
            text = s[pos:end]
            if k == 'cw':
                if text in ('\\begin', '\\end'):
                    return None     # malformed environment token
                # trailing whitespace belongs to the control word (up to the first newline if
                # it holds a paragraph break)
                j = end
                while j < len(s) and s[j].isspace():
                    j += 1
                ws = s[end:j]
                if ws.count('\n') >= 2:
                    ws = ws[:ws.find('\n')]
                end = end + len(ws)
            elif k == 'ch' and ch == '$' and s.startswith('$$', pos):
                end = pos + 2
            out.append(s[pos:end])
            pos = end
            continue
        rule = tables['defaults']
        o = ord(ch)
        if o in rule:
            out.append(M.protect(rule[o], 'braces'))
        elif 32 <= o <= 127 or ch in '\n\r\t':
            out.append(ch)
        else:
            out.append(ch)      # policy keep
        pos += 1
    return out


KEEPS = [' ', '\\ ', '\n\\', '%\\{}', '', '~&', "-'", '\\$', '\t\r', '#^_ ']
PARTIAL_KW = [{}, {'non_ascii_only': True}, {'replacement_latex_protection': 'braces-all'},
              {'unknown_char_policy': 'replace'}, {'unknown_char_policy': 'unihex'},
              {'conversion_rules': ['unicode-xml']}, {'unknown_char_warning': False},
              {'replacement_latex_protection': 'none', 'unknown_char_policy': 'ignore'}]


def check_partial_total(s, keep, kw, res):
    """other configurations of the partial encoder: it returns a string and raises nothing
    (no 'fail' policy is configured)"""
    from pylatexenc.latexencode import PartialLatexToLatexEncoder
    res.case()
    case = {'kind': 'partial-total', 's': s, 'keep': keep, 'kw': kw}
    try:
        out = PartialLatexToLatexEncoder(keep_latex_chars=keep, **kw).unicode_to_latex(s)
    except Exception as e:
        res.fail(exc_key(e), exc_detail(e) + ' on %r with keep_latex_chars=%r %r' % (s, keep, kw),
                 case)
        return
    if not isinstance(out, str):
        res.fail('c04:partial-not-a-string', repr(type(out)), case)
    res.label('partial:other-configuration')
    if any(c in keep for c in s):
        res.nontriv((s, keep, repr(kw)))


WS_KEEPS = [' ', '\n', ' \n', '\t\r', ' \n\t', '\\ ', '#^_ ', '\\${}^_ \n']
WS_ALPHA = ['a', 'b', '1', '.', ',', ' ', ' ', '\n', '\t', '\u00e9', '\u221e', '  ']


def ws_keep_model(s, keep, table):
    """keep_latex_chars holding blanks, input without LaTeX-active characters: at a kept blank the
    token that is copied through is the run of blanks plus the ordinary character after it; any
    other character follows the default rules.  None = not modelled (run with a paragraph break
    before a non-ASCII character)"""
    out, pos = [], 0
    while pos < len(s):
        ch = s[pos]
        if ch in keep:
            j = pos
            while j < len(s) and s[j] in ' \n\t\r':
                j += 1
            if j < len(s) and s[pos:j].count('\n') >= 2 and ord(s[j]) > 127:
                return None
            out.append(s[pos:j + 1])
            pos = j + 1
            continue
        o = ord(ch)
        out.append(M.protect(table[o], 'braces') if o in table else ch)
        pos += 1
    return ''.join(out)


def check_partial_ws(s, keep, res):
    from pylatexenc.latexencode import PartialLatexToLatexEncoder
    res.case()
    case = {'kind': 'partial-ws', 's': s, 'keep': keep}
    s = unicodedata.normalize('NFC', s)
    try:
        got = PartialLatexToLatexEncoder(keep_latex_chars=keep,
                                         unknown_char_warning=False).unicode_to_latex(s)
    except Exception as e:
        res.fail(exc_key(e), exc_detail(e) + ' on %r keep %r' % (s, keep), case)
        return
    want = ws_keep_model(s, keep, builtin_tables()['defaults'])
    if want is None:
        return
    res.label('partial:blank-keep-modelled')
    if any(c in keep for c in s[:-1]):
        res.nontriv((s, keep))
    if got != want:
        res.fail('c04:partial-blank-keep-differs', 'input %r keep_latex_chars=%r: partial encoder '
                 '%r, expected %r (kept blanks and the token after them copied through)'
                 % (s, keep, got, want), case)


def check_partial(s, res):
    from pylatexenc.latexencode import PartialLatexToLatexEncoder
    res.case()
    case = {'kind': 'partial', 's': s}
    try:
        enc = PartialLatexToLatexEncoder(unknown_char_warning=False, latex_string_class=Chunks)
        got = enc.unicode_to_latex(s).chunks
    except Exception as e:
        res.fail(exc_key(e), exc_detail(e) + ' on %r' % s, case)
        return
    want = partial_model(s, builtin_tables())
    if want is None:
        res.label('partial:malformed-token-totality-only')
        return
    res.label('partial:modelled')
    if ''.join(got) != ''.join(want):
        res.fail('c04:partial-encoder-differs', 'input %r: partial encoder %r, model (copy one '
                 'LaTeX token at a keep character) %r' % (s, got, want), case)


def check_history(calls, res):
    """module-level unicode_to_latex() with cached encoders vs fresh encoders"""
    from pylatexenc import latexencode
    res.case()
    for i, (s, nao, prot, pol) in enumerate(calls):
        case = {'kind': 'history', 'calls': [list(c) for c in calls[:i + 1]]}
        outs = []
        for fn in (lambda: latexencode.unicode_to_latex(s, non_ascii_only=nao,
                                                        replacement_latex_protection=prot,
                                                        unknown_char_policy=pol,
                                                        unknown_char_warning=False),
                   lambda: latexencode.UnicodeToLatexEncoder(
                       non_ascii_only=nao, replacement_latex_protection=prot,
                       unknown_char_policy=pol, unknown_char_warning=False).unicode_to_latex(s)):
            try:
                outs.append(('ok', fn()))
            except ValueError as e:
                outs.append(('ValueError', None))
            except Exception as e:
                res.fail(exc_key(e), exc_detail(e), case)
                return
        res.label('history-call')
        if outs[0] != outs[1]:
            res.fail('c04:cached-helper-differs', 'call %d %r: cached helper %r, fresh encoder %r'
                     % (i, (s, nao, prot, pol), outs[0], outs[1]), case)
            return


def check_rules_aliasing(res):
    """a caller that edits the list it got from get_builtin_conversion_rules() (inserts its own rule,
    changes an attribute of a returned rule object) configures its own encoder only: encoders built
    afterwards from the built-in names still follow the built-in tables"""
    import re as _re
    from pylatexenc.latexencode import (get_builtin_conversion_rules, UnicodeToLatexConversionRule,
                                        RULE_REGEX, UnicodeToLatexEncoder)
    samples = ['a\u00e9b', 'x \u221e y', '\u00fc%\u2014', 'a b', '\u00e9\u00e9a']
    for name in ('defaults', 'unicode-xml'):
        for step in ('before', 'insert-own-rule', 'set-rule-protection', 'clear-list'):
            rules = get_builtin_conversion_rules(name)
            if step == 'insert-own-rule':
                rules.insert(0, UnicodeToLatexConversionRule(
                    RULE_REGEX, [(_re.compile('[a\u00e9\u221e]'), 'OWN')]))
                own = UnicodeToLatexEncoder(conversion_rules=rules, unknown_char_warning=False)
                res.case()
                if 'OWN' not in own.unicode_to_latex('a'):
                    res.fail('c04:own-rule-not-applied', 'a rule inserted at the front of the list '
                             'returned by get_builtin_conversion_rules(%r) is not applied' % name,
                             {'kind': 'rules-aliasing'})
            elif step == 'set-rule-protection':
                for r in rules:
                    r.replacement_latex_protection = 'braces-all'
            elif step == 'clear-list':
                del rules[:]
            for s in samples:
                for prot in ('braces', 'none'):
                    cfg = {'rules': [{'type': 'builtin', 'name': name}], 'protection': prot,
                           'policy': 'keep', 'non_ascii_only': False}
                    check_pair(s, cfg, res, {'kind': 'rules-aliasing', 'step': step, 'name': name})
            res.label('rules-aliasing:' + step)


def plan(tier, seed):
    n, nconc, npart, nhist = (16000, 8000, 9600, 640) if tier == 'quick' else \
        (128000, 64000, 96000, 6400)
    shards = [('pairs', n // NSHARDS, seed * 1000 + k) for k in range(NSHARDS)]
    shards += [('concat', nconc // NSHARDS, seed * 1000 + 100 + k) for k in range(NSHARDS)]
    shards += [('partial', npart // NSHARDS, seed * 1000 + 200 + k) for k in range(NSHARDS)]
    shards += [('history', nhist // NSHARDS, seed * 1000 + 300 + k) for k in range(NSHARDS)]
    shards += [('builtin-singles', k) for k in range(NSHARDS)]
    shards += [('rules-aliasing',)]
    return {'shards': shards, 'bounds': {'pairs': n, 'concat': nconc, 'partial': npart,
                                         'histories': nhist, 'max_string': 30},
            'required_classes': ['rule:dict', 'rule:regex', 'rule:call', 'rule:builtin',
                                 'policy:fail', 'policy:unihex', 'outcome:fail-raised',
                                 'non-trivial', 'concat-law', 'partial:modelled', 'partial:blank-keep-modelled',
                                 'partial:malformed-token-totality-only', 'history-call',
                                 'builtin-single', 'rules-aliasing:insert-own-rule']}


def run_shard(shard, res):
    from hypothesis import strategies as st
    kind = shard[0]
    tables = builtin_tables()
    extra = [chr(o) for o in sorted(set(tables['defaults']) | set(tables['unicode-xml']))]
    if kind == 'rules-aliasing':
        check_rules_aliasing(res)
    elif kind == 'pairs':
        _, n, seed = shard

        def one(x):
            s, cfg = x
            s = sanitize(s, cfg)
            case = {'kind': 'pair', 's': s, 'cfg': cfg}
            check_pair(s, cfg, res, case)
            if nontrivial(s, cfg):
                res.nontriv((s, cfg))
                res.label('non-trivial', case if len(s) < 12 else None)
        hyp_run(st.tuples(string_strategy(extra), config_strategy()), one, n, seed)
    elif kind == 'concat':
        _, n, seed = shard
        opts = st.fixed_dictionaries({'set': st.sampled_from(['defaults', 'unicode-xml']),
                                      'prot': st.sampled_from(PROTS[:5]),
                                      'policy': st.sampled_from(['keep', 'replace', 'ignore',
                                                                 'unihex']),
                                      'nao': st.booleans()})
        strs = st.lists(st.one_of(st.sampled_from(extra), st.sampled_from(ALPHA[:-1]),
                                  st.characters(blacklist_categories=('Cs',))),
                        max_size=8).map(''.join)
        hyp_run(st.tuples(strs, strs, opts),
                lambda x: (check_concat(x[0], x[1], x[2], res), res.nontriv(x)), n, seed)
    elif kind == 'partial':
        _, n, seed = shard
        strs = st.lists(st.sampled_from(PARTIAL_ALPHA), max_size=10).map(''.join)
        hyp_run(strs, lambda s: check_partial(s, res), n, seed)
        wide = st.lists(st.one_of(st.sampled_from(PARTIAL_ALPHA), st.sampled_from(PARTIAL_ALPHA),
                                  st.characters(blacklist_categories=('Cs',))),
                        max_size=8).map(''.join)
        hyp_run(st.tuples(wide, st.sampled_from(KEEPS + [KEEP_DEFAULT]), st.sampled_from(PARTIAL_KW)),
                lambda t: check_partial_total(t[0], t[1], t[2], res), n // 2, seed + 7)
        ws = st.lists(st.sampled_from(WS_ALPHA), max_size=8).map(''.join)
        hyp_run(st.tuples(ws, st.sampled_from(WS_KEEPS)),
                lambda t: check_partial_ws(t[0], t[1], res), n // 2, seed + 11)
    elif kind == 'history':
        _, n, seed = shard
        call = st.tuples(st.lists(st.sampled_from(ALPHA[:-1] + extra[:40]), max_size=6).map(''.join),
                         st.booleans(), st.sampled_from(PROTS[:5]),
                         st.sampled_from(['keep', 'replace', 'ignore', 'fail', 'unihex']))
        hyp_run(st.lists(call, min_size=2, max_size=8), lambda c: check_history(c, res), n, seed)
    else:
        _, k = shard
        chars = sorted(set(tables['defaults']) | set(tables['unicode-xml']))
        for i, o in enumerate(chars):
            if i % NSHARDS != k:
                continue
            for name in ('defaults', 'unicode-xml'):
                for prot in PROTS[:5]:
                    for pol in ('keep', 'fail', 'unihex'):
                        for nao in (False, True):
                            cfg = {'rules': [{'type': 'builtin', 'name': name}], 'protection': prot,
                                   'policy': pol, 'non_ascii_only': nao}
                            s = 'a' + chr(o) + 'b'
                            check_pair(s, cfg, res, {'kind': 'pair', 's': s, 'cfg': cfg})
                            res.label('builtin-single')
        res.exhaustive = None


def check_case(case, res):
    k = case['kind']
    if k == 'rules-aliasing':
        check_rules_aliasing(res)
    elif k == 'pair':
        check_pair(case['s'], case['cfg'], res, case)
    elif k == 'concat':
        check_concat(case['a'], case['b'], case['opts'], res)
    elif k == 'partial':
        check_partial(case['s'], res)
    elif k == 'partial-ws':
        check_partial_ws(case['s'], case['keep'], res)
    elif k == 'partial-total':
        check_partial_total(case['s'], case['keep'], case['kw'], res)
    else:
        check_history([tuple(c) for c in case['calls']], res)


def minimise(case, key):
    def holds(c):
        r = Result()
        check_case(c, r)
        return key in r.failures
    k = case['kind']
    if k in ('pair', 'partial'):
        c = dict(case, s=''.join(ddmin(list(case['s']), lambda t: holds(dict(case, s=''.join(t))))))
        if k == 'pair':
            cfg = dict(c['cfg'])
            rules = ddmin(cfg['rules'], lambda rs: holds(dict(c, cfg=dict(cfg, rules=list(rs)))))
            c['cfg'] = dict(cfg, rules=list(rules))
        return c
    return case
