"""C17 -- a derived parsing state behaves exactly like a freshly built one."""
import itertools

from .. import contexts
from ..engine import exc_key, exc_detail, ddmin, Result, hyp_run
from ..treedump import dump
from .c11 import tokkey

ID = 'C17'
LEVEL = 'exploration'
RULE = ('Hypothesis draws chains of 1..5 sub_context(**kw) calls, each changing a subset of the '
        'fields (in_math_mode, math_mode_delimiter, group / inline-math / display-math delimiter '
        'lists incl. non-default closers, enable_* flags, escape and comment characters, forbidden '
        'characters, macro_alpha_chars), including no-op calls and changing a field back. For the '
        'final derived state D and fresh = ParsingState(**D.get_fields()), token sequences '
        '(strict and tolerant LatexTokenReader) and parse_content dumps are compared on every '
        'string of <= 3 tokens over an alphabet containing every delimiter '
        'configured anywhere in the chain plus a, space, \\, %; the parent\'s get_fields() and token '
        'sequences must be unchanged by deriving. Each derived state has the fields of a state constructed from the parent\'s fields with the '
        'requested ones replaced. Families: group, inline, display, flags, chars, context. '
        'Non-trivial = chain that changes a delimiter list '
        'while in math mode, or changes one field group while another stays; distinct by chain.')
ASSUMPTIONS = ['only public API: sub_context, get_fields, ParsingState(**fields), LatexTokenReader, '
               'LatexWalker.parse_content']
NSHARDS = 16

GROUP_DELIMS = [[['{', '}']], [['{', '}'], ['[', ']']], [['<', '>']], [['{', '}'], ['(', ')']]]
INLINE_DELIMS = [[['$', '$'], ['\\(', '\\)']], [['$', '!']], [['$', '$']], [['!', '!']],
                 [['\\(', '\\)']], []]
DISPLAY_DELIMS = [[['$$', '$$'], ['\\[', '\\]']], [['\\[', '\\]']], [['$$', '!!']], [['!!', '!!']],
                  []]
FLAGS = ['enable_double_newline_paragraphs', 'enable_macros', 'enable_environments',
         'enable_comments', 'enable_groups', 'enable_specials', 'enable_math']
GROUP_OF = {'latex_group_delimiters': 'G', 'latex_inline_math_delimiters': 'M',
            'latex_display_math_delimiters': 'M', 'in_math_mode': 'I', 'math_mode_delimiter': 'I',
            'macro_escape_char': 'C', 'comment_start': 'C', 'forbidden_characters': 'C',
            'macro_alpha_chars': 'C', 'latex_context': 'X'}
for _f in FLAGS:
    GROUP_OF[_f] = 'F'


def step_strategy():
    from hypothesis import strategies as st
    math = st.one_of(
        st.just({'in_math_mode': False, 'math_mode_delimiter': None}),
        st.just({'in_math_mode': False}),       # the delimiter is reset implicitly
        st.sampled_from(['$', '$$', '\\(', '\\[', '!', '!!', None]).map(
            lambda d: {'in_math_mode': True, 'math_mode_delimiter': d}),
        st.just({'in_math_mode': True}),
    )
    pieces = [
        math, math,
        st.sampled_from(GROUP_DELIMS).map(lambda v: {'latex_group_delimiters': v}),
        st.sampled_from(INLINE_DELIMS).map(lambda v: {'latex_inline_math_delimiters': v}),
        st.sampled_from(INLINE_DELIMS).map(lambda v: {'latex_inline_math_delimiters': v}),
        st.sampled_from(DISPLAY_DELIMS).map(lambda v: {'latex_display_math_delimiters': v}),
        st.tuples(st.sampled_from(FLAGS), st.booleans()).map(lambda t: {t[0]: t[1]}),
        st.sampled_from(['\\', '|']).map(lambda v: {'macro_escape_char': v}),
        st.sampled_from(['%', '#', '%%']).map(lambda v: {'comment_start': v}),
        st.sampled_from(['abcdefghijklmnopqrstuvwxyzABCDEFGHIJKLMNOPQRSTUVWXYZ', 'b', 'a@']).map(
            lambda v: {'macro_alpha_chars': v}),
        st.sampled_from(['', 'a', '$%']).map(lambda v: {'forbidden_characters': v}),
        st.just({}),
    ]

    def merge(ds):
        out = {}
        for d in ds:
            out.update(d)
        return out
    return st.lists(st.one_of(*pieces), min_size=0, max_size=3).map(merge)


def chain_strategy():
    from hypothesis import strategies as st
    return st.lists(step_strategy(), min_size=1, max_size=5)


def to_kwargs(step):
    kw = {}
    for k, v in step.items():
        if k.endswith('_delimiters'):
            v = [tuple(p) for p in v]
        if k == 'latex_context':
            v = named_context(v)
        kw[k] = v
    return kw


_NAMED_CTX = {}


def named_context(name):
    """'ctx:<recipe>' -> one frozen database per recipe (steps stay JSON for the replay files)"""
    if name is None:
        return None
    if name == 'ctx:default':
        base_state()
        return _CTX[0]
    if name not in _NAMED_CTX:
        db = contexts.build(name[4:])
        db.freeze()
        _NAMED_CTX[name] = db
    return _NAMED_CTX[name]


_CTX = []


def base_state(root_fields=None):
    from pylatexenc.latexnodes import ParsingState
    if not _CTX:
        _CTX.append(contexts.build('default'))
        _CTX[0].freeze()
    kw = to_kwargs(root_fields) if root_fields else {}
    if kw.get('math_mode_delimiter') and not kw.get('in_math_mode'):
        kw.pop('math_mode_delimiter')
    kw.setdefault('latex_context', _CTX[0])
    return ParsingState(s=None, **kw)


def alphabet_for(chain):
    # delimiters of the last steps first (the alphabet is truncated), then the fixed symbols;
    # '~', a blank line and \\begin make the enable_specials / paragraph / environment flags
    # observable
    toks = []
    for step in reversed(chain):
        for k, v in step.items():
            if k.endswith('_delimiters'):
                for o, c in v:
                    toks += [o, c]
            elif k in ('macro_escape_char', 'comment_start'):
                toks.append(v)
            elif k == 'math_mode_delimiter' and v:
                toks += [v, {'\\(': '\\)', '\\[': '\\]'}.get(v, v)]
            elif k == 'latex_context':
                toks += ['+', '++', '&']       # specials of the every-type / default databases
    toks += ['a', ' ', '\\', '%', '{', '}', '$', '~', '\n\n', '\\begin{a}', '\\end{a}', '@']
    seen, out = set(), []
    for t in toks:
        if t not in seen:
            seen.add(t)
            out.append(t)
    return out


def token_seq(s, ps, tolerant):
    from pylatexenc.latexnodes import (LatexTokenReader, LatexWalkerEndOfStream,
                                       LatexWalkerTokenParseError)
    r = LatexTokenReader(s, tolerant_parsing=tolerant)
    out = []
    for _ in range(len(s) + 2):
        try:
            t = r.next_token(ps)
        except LatexWalkerEndOfStream as e:
            out.append(('EOS', getattr(e, 'final_space', '')))
            break
        except LatexWalkerTokenParseError as e:
            out.append(('TOKERR', getattr(e, 'pos', None)))
            break
        except Exception as e:
            out.append(('EXC', type(e).__name__))
            break
        out.append(tokkey(t))
    return out


def parse_dump(s, ps):
    from pylatexenc.latexwalker import LatexWalker, LatexWalkerParseError
    from pylatexenc.latexnodes.parsers import LatexGeneralNodesParser
    w = LatexWalker(s, latex_context=_CTX[0], tolerant_parsing=False)
    try:
        nl, _ = w.parse_content(LatexGeneralNodesParser(), parsing_state=ps)
        return ('tree', dump(nl))
    except LatexWalkerParseError as e:
        return ('error', getattr(e, 'pos', None), (getattr(e, 'error_type_info', None) or {}).get('what'))
    except Exception as e:
        return ('exc', type(e).__name__)     # (messages may quote object identities)


def snap(ps):
    """deep, comparable snapshot of the public fields (context compared by identity)"""
    from ..treedump import _jsonable
    d = ps.get_fields()
    out = {k: _jsonable(v) for k, v in d.items() if k != 'latex_context'}
    out['latex_context'] = id(d['latex_context'])
    return out


def chain_groups(chain):
    gs = []
    for step in chain:
        gs.append(set(GROUP_OF[k] for k in step))
    return gs


def build_chain(chain):
    """returns (parent_of_last, derived, fresh, error)"""
    from pylatexenc.latexnodes import ParsingState
    ps = base_state()
    parent = ps
    for step in chain:
        parent = ps
        ps = ps.sub_context(**to_kwargs(step))
    fresh = ParsingState(**ps.get_fields())
    return parent, ps, fresh


def check_chain(chain, strings, res, case_base, label=True, root=None):
    res.case(max(1, len(strings)))
    try:
        ps0 = base_state(root)
        states = [ps0]
        fields_before = []
        parent_before = {}
        for si, step in enumerate(chain):
            fields_before.append(snap(states[-1]))
            if si == len(chain) - 1:
                for toks in strings:
                    if len(toks) <= 2:
                        parent_before[tuple(toks)] = token_seq(''.join(toks), states[-1], True)
            from pylatexenc.latexnodes import ParsingState
            try:
                asked = ParsingState(**dict(states[-1].get_fields(), **to_kwargs(step)))
            except Exception:
                # a field set the constructor itself rejects is outside the domain
                res.label('chain-outside-domain:constructor-rejects-fields')
                return
            states.append(states[-1].sub_context(**to_kwargs(step)))
            # the fields of the derived state are those of the state it was derived from with
            # the given ones replaced -- as the constructor itself interprets such a field set
            if snap(states[-1]) != snap(asked):
                diff = sorted(k for k in snap(asked) if snap(asked)[k] != snap(states[-1]).get(k))
                res.fail('c17:derived-fields-not-as-requested:' + ','.join(diff)[:60],
                         'step %d %r: derived state has %r, a state built directly from the '
                         'parent\'s fields with these replaced has %r'
                         % (si, step, {k: snap(states[-1]).get(k) for k in diff},
                            {k: snap(asked)[k] for k in diff}), dict(case_base, tokens=[]))
        derived = states[-1]
        fresh = ParsingState(**derived.get_fields())
    except Exception as e:
        res.fail(exc_key(e), exc_detail(e), dict(case_base, tokens=[]))
        return
    gs = chain_groups(chain)
    last = ''.join(sorted(gs[-1])) or 'noop'
    inmath = 'inmath' if derived.in_math_mode else 'text'
    # sub_context never alters the state it is called on
    for i, fb in enumerate(fields_before):
        if snap(states[i]) != fb:
            res.fail('c17:parent-fields-changed', 'get_fields() of state %d changed after deriving'
                     % i, dict(case_base, tokens=[]))
    if derived.get_fields() != fresh.get_fields():
        res.fail('c17:fresh-fields-differ', 'ParsingState(**get_fields()).get_fields() differs',
                 dict(case_base, tokens=[]))
    parent = states[-2]
    try:
        parent_fresh = ParsingState(**parent.get_fields())
    except Exception as e:
        res.fail(exc_key(e), exc_detail(e), dict(case_base, tokens=[]))
        return
    for toks in strings:
        s = ''.join(toks)
        case = dict(case_base, tokens=list(toks))
        for tolerant in (True, False):
            a = token_seq(s, derived, tolerant)
            b = token_seq(s, fresh, tolerant)
            if a != b:
                res.fail('c17:tokens-differ:last-change=%s:%s' % (last, inmath),
                         'on %r (%s reader): derived state gives %r, fresh state with the same '
                         'fields gives %r' % (s, 'tolerant' if tolerant else 'strict', a, b), case)
                break
        else:
            a = parse_dump(s, derived)
            b = parse_dump(s, fresh)
            if a != b:
                res.fail('c17:parse-differs:last-change=%s:%s' % (last, inmath),
                         'on %r: parse under derived state %r, under fresh state %r'
                         % (s, str(a)[:200], str(b)[:200]), case)
        if len(toks) <= 2:
            # the parent still tokenizes as a fresh copy of itself (deriving did not alter it)
            now = token_seq(s, parent, True)
            if now != parent_before.get(tuple(toks), now):
                res.fail('c17:parent-behaviour-changed:%s' % last,
                         'the state sub_context() was called on tokenizes %r differently after '
                         'the call' % s, case)
            if now != token_seq(s, parent_fresh, True):
                res.fail('c17:intermediate-state-differs-from-fresh',
                         'intermediate derived state tokenizes %r differently from a fresh state '
                         'with the same fields' % s, case)
    if label:
        allg = set().union(*gs) if gs else set()
        for g in allg:
            res.label('changed:' + g)
        delim_while_math = False
        in_math = False
        for step in chain:
            if 'in_math_mode' in step:
                in_math = step['in_math_mode']
            elif in_math and any(k.endswith('_delimiters') for k in step):
                delim_while_math = True
        if delim_while_math:
            res.label('delimiter-list-changed-while-in-math', {'chain': chain})
        if any(not g for g in gs):
            res.label('no-op-step')
        partial = len(allg) >= 1 and len(allg) < 5
        if delim_while_math or (partial and len(chain) >= 2):
            res.nontriv(chain)
            res.label('non-trivial')


# exhaustive family: every chain of up to ENUM_LEN steps over the math-related steps (the
# inheritance paths of the cached tables: enter / leave math mode with and without naming the
# delimiter, changing a delimiter list, no-op)
MATH_STEPS = [
    {'in_math_mode': True, 'math_mode_delimiter': '$'},
    {'in_math_mode': True, 'math_mode_delimiter': '$$'},
    {'in_math_mode': True, 'math_mode_delimiter': '\\('},
    {'in_math_mode': True, 'math_mode_delimiter': '!'},
    {'in_math_mode': True, 'math_mode_delimiter': None},
    {'in_math_mode': True, 'math_mode_delimiter': '\\['},
    {'in_math_mode': True},
    {'in_math_mode': False},
    {'in_math_mode': False, 'math_mode_delimiter': None},
    {'math_mode_delimiter': '$'},
    {'latex_inline_math_delimiters': [['$', '!']]},
    {'latex_inline_math_delimiters': [['!', '!']]},
    {'latex_display_math_delimiters': [['$$', '!!']]},
    {'latex_inline_math_delimiters': []},
    {'latex_display_math_delimiters': []},
    {'enable_math': False},
    {'enable_math': True},
    {'enable_groups': False},
    {'enable_groups': True},
    {'latex_group_delimiters': [['{', '}'], ['[', ']']]},
    {'latex_group_delimiters': [['{', '}']]},
    {},
]


# the steps through which the cached math tables are inherited or rebuilt: chains of three over
# these are enumerated in the quick tier too (longer chains over all steps in the thorough tier)
CORE_STEPS = [st for st in MATH_STEPS if st in (
    {'in_math_mode': True, 'math_mode_delimiter': '$'},
    {'in_math_mode': True, 'math_mode_delimiter': '\\('},
    {'in_math_mode': True, 'math_mode_delimiter': None},
    {'in_math_mode': True}, {'in_math_mode': False},
    {'in_math_mode': False, 'math_mode_delimiter': None},
    {'latex_inline_math_delimiters': [['$', '!']]}, {'latex_inline_math_delimiters': []},
    {'enable_math': False}, {'latex_group_delimiters': [['{', '}'], ['[', ']']]}, {})]


# further exhaustive families: every chain of <= 2 (quick) / <= 3 (thorough) steps within one
# field group, so that each kind of replacement (longer / shorter / disjoint list, flag on/off
# and back, character changed and restored) occurs deterministically
FAMILIES = {
    'group': [{'latex_group_delimiters': v} for v in GROUP_DELIMS + [
        [['[', ']'], ['<', '>']], [['{', '}'], ['[', ']'], ['<', '>']]]],     # (an empty list is
    # rejected by the constructor itself, derived or not: not generated)
    'inline': [{'latex_inline_math_delimiters': v} for v in INLINE_DELIMS] + [
        {'in_math_mode': True, 'math_mode_delimiter': '$'}, {'in_math_mode': False}],
    'display': [{'latex_display_math_delimiters': v} for v in DISPLAY_DELIMS] + [
        {'in_math_mode': True, 'math_mode_delimiter': '$$'}, {'in_math_mode': False}],
    'flags': [{f: b} for f in FLAGS for b in (False, True)],
    'chars': [{'macro_escape_char': '|'}, {'macro_escape_char': '\\'}, {'comment_start': '#'},
              {'comment_start': '%%'}, {'comment_start': '%'}, {'forbidden_characters': 'a$'},
              {'forbidden_characters': ''}, {'macro_alpha_chars': 'a@'},
              {'macro_alpha_chars': 'abcdefghijklmnopqrstuvwxyzABCDEFGHIJKLMNOPQRSTUVWXYZ'}],
    # a delimiter pair moved between the inline and the display list in one call (the two lists
    # concatenated stay the same sequence)
    'moved': [{'latex_inline_math_delimiters': i, 'latex_display_math_delimiters': d}
              for i, d in (([['$', '$'], ['\\(', '\\)'], ['$$', '$$']], [['\\[', '\\]']]),
                           ([['$', '$']], [['\\(', '\\)'], ['$$', '$$'], ['\\[', '\\]']]),
                           ([], [['$', '$'], ['\\(', '\\)'], ['$$', '$$'], ['\\[', '\\]']]),
                           ([['$', '$'], ['\\(', '\\)'], ['$$', '$$'], ['\\[', '\\]']], []),
                           ([['$', '$'], ['\\(', '\\)']], [['$$', '$$'], ['\\[', '\\]']]))] + [
        {'in_math_mode': True, 'math_mode_delimiter': '$'}, {}],
    # the context database (the tokenizer asks it for specials) replaced, removed, restored,
    # between steps that rebuild or inherit the cached tables
    'context': [{'latex_context': 'ctx:every'}, {'latex_context': 'ctx:default'},
                {'latex_context': None}, {'enable_specials': False}, {'enable_specials': True},
                {'in_math_mode': True, 'math_mode_delimiter': '$'},
                {'latex_inline_math_delimiters': [['$', '!']]}, {}],
}


def plan(tier, seed):
    n, L = (320, 3) if tier == 'quick' else (3200, 3)     # thorough: ~18M string cases
    shards = [('chains', n // NSHARDS, L, seed * 1000 + k) for k in range(NSHARDS)]
    shards += [('enum', 2 if tier == 'quick' else 3, 2, k) for k in range(NSHARDS)]
    shards += [('enumcore', 3 if tier == 'quick' else 4, 2, k) for k in range(NSHARDS)]
    shards += [('fam:' + f, 2 if tier == 'quick' else 3, 2, k) for f in sorted(FAMILIES)
               for k in range(4)]
    return {'shards': shards, 'bounds': {'chains': n, 'max_chain': 5, 'string_tokens': L},
            'required_classes': ['changed:G', 'changed:M', 'changed:I', 'changed:F', 'changed:C',
                                 'delimiter-list-changed-while-in-math', 'no-op-step',
                                 'non-trivial', 'enumerated-chain', 'family:group',
                                 'family:inline', 'family:display', 'family:flags',
                                 'family:chars', 'family:context', 'family:moved',
                                 'changed:X']}


def strings_for(chain, L):
    alpha = alphabet_for(chain)
    # bound the work per chain: full enumeration up to L over at most 12 symbols
    alpha = alpha[:13]
    return [t for l in range(1, L + 1) for t in itertools.product(alpha, repeat=l)]


def run_shard(shard, res):
    if shard[0] in ('enum', 'enumcore') or shard[0].startswith('fam:'):
        _, clen, L, k = shard
        i = 0
        nsh = NSHARDS
        if shard[0].startswith('fam:'):
            steps, nsh = FAMILIES[shard[0][4:]], 4
            res.label('family:' + shard[0][4:])
        else:
            steps = MATH_STEPS if shard[0] == 'enum' else CORE_STEPS
        for l in range(clen if shard[0] == 'enumcore' else 1, clen + 1):
            for chain in itertools.product(steps, repeat=l):
                if i % nsh == k:
                    chain = [dict(c) for c in chain]
                    check_chain(chain, strings_for(chain, L), res, {'chain': chain})
                    res.label('enumerated-chain')
                    if len(chain) >= 2:
                        # same steps, but the first one given to the constructor of the root state
                        check_chain(chain[1:], strings_for(chain, L), res,
                                    {'chain': chain[1:], 'root': chain[0]}, root=chain[0])
                        res.label('root-built-with-fields')
                i += 1
        res.exhaustive = True
        return
    _, n, L, seed = shard

    def one(chain):
        check_chain(chain, strings_for(chain, L), res, {'chain': chain})
    hyp_run(chain_strategy(), one, n, seed)


def check_case(case, res):
    toks = case.get('tokens') or []
    strings = [toks] if toks else strings_for(case['chain'], 2)
    check_chain(case['chain'], strings, res, {'chain': case['chain'], 'root': case.get('root')},
                label=False, root=case.get('root'))


def minimise(case, key):
    def holds(c):
        r = Result()
        check_case(c, r)
        return key in r.failures
    c = dict(case)
    if c.get('tokens'):
        c['tokens'] = ddmin(c['tokens'], lambda t: holds(dict(c, tokens=list(t))))
    if len(c['chain']) > 1:
        c['chain'] = ddmin(c['chain'], lambda ch: holds(dict(c, chain=list(ch))))
    return c
