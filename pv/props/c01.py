"""C01 -- node tree is a lossless, exactly positioned cover of the source."""
from .. import soups, spans, px, contexts, monitor
from ..contexts import EXTRA_TOKENS, OPTIONS_TOKENS
from ..alphabets import LEGACY
from ..alphabets import SIG, SIG_SMALL, EVERYTYPE_TOKENS
from ..engine import exc_key, exc_detail, ddmin, hyp_run
from ..treedump import walk, kind

ID = 'C01'
LEVEL = 'exploration'
RULE = ('(a) bounded-exhaustive token soups over the 46-token LaTeX-significant alphabet, strict '
        'parse, default context; (b) the same over an 18-token reduced alphabet plus the tokens of '
        'an every-argument-type custom context ({*,[,{,m,o,s,t<c>,r<c1c2>,d<c1c2>,v} and '
        'math/text deltas); (c) grammar-generated documents (Hypothesis) under both contexts; '
        '(d) tolerant parses of the same soups, in-range/nesting part only. Oracle: span checker '
        '(top-level tiling of [0,len), node-list span, child containment/order/no overlap, body '
        'tiling of groups/math/environments, chars/comment text = source slice, delimiter/name '
        'anchoring, concatenated latex_verbatim() = input); (e) the context of the less common '
        'parser classes (extra); (f) thorough tier: atheris campaigns whose target runs the same '
        'oracle. Non-trivial = input parses strictly '
        'and its tree has >= 2 nodes of which >= 1 is not a chars node; distinct by source string '
        '(enumerated strings are distinct by construction).')
ASSUMPTIONS = [
    'comment start is % and escape is \\ in all contexts used',
    'nesting depth of generated inputs stays below 41 (recursion is an interpreter resource)',
]
NSHARDS = 16
ALPHA_EVERY = SIG_SMALL + EVERYTYPE_TOKENS

_CTX = {}


def ctx(name):
    if name not in _CTX:
        _CTX[name] = contexts.build(name)
    return _CTX[name]


def plan(tier, seed):
    if tier == 'quick':
        L, LE, L5, ndocs = 3, 3, 0, 3000
    else:
        L, LE, L5, ndocs = 4, 4, 5, 60000
    shards = []
    for k in range(NSHARDS):
        shards.append(('soup', 'default', 'SIG', L, k))
    for k in range(NSHARDS):
        shards.append(('soup', 'every', 'EVERY', LE, k))
    for k in range(NSHARDS):
        shards.append(('soup', 'extra', 'EXTRA', 3 if tier == 'quick' else 4, k))
        shards.append(('soup', 'options', 'OPTIONS', 3 if tier == 'quick' else 4, k))
        shards.append(('soup', 'default', 'LEGACY', 3 if tier == 'quick' else 4, k))
    if L5:
        for k in range(NSHARDS):
            shards.append(('soup', 'default', 'SMALL', L5, k))
    for k in range(NSHARDS):
        shards.append(('docs', ndocs // NSHARDS, seed * 1000 + k))
    shards.append(('verbbodies',))
    shards += [('items', k) for k in range(NSHARDS)]
    if tier != 'quick':
        shards += [('fuzz', FUZZ_RUNS, seed * 100 + k + 1) for k in range(NSHARDS)]
    return {'shards': shards,
            'bounds': {'soup_len_default': L, 'soup_len_everytype': LE, 'soup_len_small': L5,
                       'alphabet_sizes': {'SIG': len(SIG), 'EVERY': len(ALPHA_EVERY),
                                          'SMALL': len(SIG_SMALL)},
                       'documents': ndocs},
            # (only classes that any parser of LaTeX produces; which tokens a context declares
            # as specials, e.g. the paragraph break, is the library's business)
            'required_classes': ['strict-ok', 'tolerant-returned', 'kind:macro', 'kind:group',
                                 'kind:math', 'kind:environment', 'kind:comment',
                                 'doc:strict-ok', 'verbatim-bodies', 'constructed-items']}


ALPHAS = {'SIG': SIG, 'EVERY': ALPHA_EVERY, 'SMALL': SIG_SMALL, 'EXTRA': EXTRA_TOKENS,
          'OPTIONS': OPTIONS_TOKENS, 'LEGACY': LEGACY}


def classify(s, nl, res, case):
    ks = set()
    n_nodes = 0
    for n in walk(nl):
        n_nodes += 1
        k = kind(n)
        ks.add(k)
        if k == 'specials' and n.specials_chars == '\n\n':
            res.label('paragraph-token', case)
        if k == 'macro' and n.nodeargd is not None and getattr(n.nodeargd, 'argnlist', None):
            for a in n.nodeargd.argnlist:
                if a is not None and getattr(a, 'pos', None) is not None \
                   and a.pos > n.pos + 1 + len(n.macroname) + len(n.macro_post_space or ''):
                    res.label('arg-after-space', case)
        if k == 'comment' and n.pos_end == len(s) and not s.endswith('\n'):
            res.label('comment-at-eof', case)
        if k == 'macro' and n.macro_post_space and s[n.pos_end:n.pos_end + 1] == '\n':
            res.label('macro-space-before-parbreak', case)
    for k in ks:
        res.label('kind:' + k, case)
    return n_nodes, ks


def check_source(s, ctxname, res, case, prefix=''):
    """Strict parse + span check, then tolerant parse + range check."""
    PE = px.parse_error_class()
    res.case()
    # strict
    try:
        w, nl = px.parse(s, ctx(ctxname), tolerant=False)
    except PE:
        nl = None
        res.label(prefix + 'strict-rejected')
    except monitor.NonTermination:
        nl = None       # termination is C05/C06's business
    except Exception:
        nl = None       # foreign exception types are C05's business
    else:
        res.label(prefix + 'strict-ok')
        problems = spans.check_strict(s, nl)
        n_nodes, ks = classify(s, nl, res, case)
        if n_nodes >= 2 and (ks - {'chars'}):
            res.nontriv(s) if prefix else res.nontriv_distinct()
        for key, detail in problems:
            res.fail('c01:' + key, detail, dict(case, mode='strict'))
    # tolerant: in-range / nesting only
    try:
        w, nl = px.parse(s, ctx(ctxname), tolerant=True)
    except monitor.NonTermination:
        return
    except Exception:
        return      # tolerant totality is C06's business
    if nl is not None:
        res.label('tolerant-returned')
        for key, detail in spans.check_tolerant(s, nl):
            res.fail('c01:tolerant:' + key, detail, dict(case, mode='tolerant'))


FUZZ_RUNS = 30000


def fuzz_case(s, i):
    return {'kind': 'doc', 'ctx': ('default', 'extra', 'every')[i % 3], 'src': s}


# bodies of verbatim-type environments: leading / trailing newlines, blank lines, blanks
VERB_ENVS = [('default', 'verbatim', ''), ('default', 'lstlisting', ''),
             ('default', 'lstlisting', '[a=b]'), ('extra', 'vcode', '')]
VERB_BODIES = ['', 'a', '\na', '\n\na', '\n\n\na\n', ' \n a', 'a\n\n', '\n', '\n\n', ' a b ',
               '\n{a}%b\n\\c $d$\n']


def blank_variants(item):
    """the item itself and the item with one blank inserted before an argument opener / marker"""
    out = [item]
    for i, ch in enumerate(item):
        if i > 0 and ch in '*[{(<+!' and item[i - 1] not in '\\ ' and not item.startswith('\\begin{', max(0, i - 6)):
            out.append(item[:i] + ' ' + item[i:])
            out.append(item[:i] + '\n' + item[i:])
    return out


def run_items(k, res):
    """complete constructs of each context (the catalogue C06 also uses), alone and in pairs, with
    a blank or a newline before each argument in turn"""
    from .c06 import PREFIX_ITEMS
    i = 0
    for ctxname in sorted(PREFIX_ITEMS):
        items = PREFIX_ITEMS[ctxname]
        for a in items:
            for va in blank_variants(a):
                for b in [''] + items[::3]:
                    i += 1
                    if i % NSHARDS != k:
                        continue
                    s = va + b
                    check_source(s, ctxname, res, {'kind': 'doc', 'ctx': ctxname, 'src': s},
                                 prefix='doc:')
    res.label('constructed-items')


def run_shard(shard, res):
    if shard[0] == 'verbbodies':
        for ctxname, env, args in VERB_ENVS:
            for body in VERB_BODIES:
                for lead, tail in (('', ''), ('x ', ' y'), ('{', '}')):
                    s = '%s\\begin{%s}%s%s\\end{%s}%s' % (lead, env, args, body, env, tail)
                    check_source(s, ctxname, res, {'kind': 'doc', 'ctx': ctxname, 'src': s},
                                 prefix='doc:')
        res.label('verbatim-bodies')
        return
    if shard[0] == 'fuzz':
        from .. import fuzz
        fuzz.campaign(ID, shard[1], shard[2], res)
        return
    if shard[0] == 'items':
        run_items(shard[1], res)
        return
    if shard[0] == 'soup':
        _, ctxname, alpha, L, k = shard
        for toks in soups.enum_tokens(ALPHAS[alpha], L, k, NSHARDS):
            s = ''.join(toks)
            check_source(s, ctxname, res, {'kind': 'soup', 'ctx': ctxname, 'tokens': list(toks)})
        res.exhaustive = True
    elif shard[0] == 'docs':
        _, n, seed = shard
        from .. import docgrammar

        def one(doc):
            ctxname, src = doc
            check_source(src, ctxname, res, {'kind': 'doc', 'ctx': ctxname, 'src': src},
                         prefix='doc:')
        hyp_run(docgrammar.source_strategy(), one, n, seed)


def check_case(case, res):
    if case['kind'] == 'soup':
        check_source(''.join(case['tokens']), case['ctx'], res, case)
    else:
        check_source(case['src'], case['ctx'], res, case, prefix='doc:')


def minimise(case, key):
    from ..engine import Result
    if case['kind'] == 'soup':
        toks = case['tokens']
    else:
        toks = list(case['src'])

    def mk(t):
        if case['kind'] == 'soup':
            return dict(case, tokens=list(t))
        return dict(case, src=''.join(t))

    def pred(t):
        r = Result()
        check_case(mk(t), r)
        return key in r.failures
    return mk(ddmin(toks, pred))
