"""C10 -- each node's math/text mode is the one implied by the enclosing structure."""
from .. import soups, px, contexts, docgrammar
from ..alphabets import MATH9
from ..engine import exc_key, exc_detail, ddmin, Result, hyp_run
from ..models import mathmini
from ..treedump import walk, kind

ID = 'C10'
LEVEL = 'exploration'
RULE = ('(a) Hypothesis grammar documents biased towards nested $ \\( $$ \\[, math environments, '
        '\\text-like macros, \\ensuremath, groups and non-math environments (depth <= 5, default '
        'and every-argument-type contexts): every node of the strict parse, located by its start '
        'offset, must record exactly the mode (in_math_mode, math_mode_delimiter) that the '
        'generating AST implies for that offset, and every math node the AST\'s display type and '
        'delimiters; (b) bounded-exhaustive strings over {$, a, {, }, space, \\(, \\), \\[, \\]}: '
        'differential against a 60-line recursive-descent reference (expected closing delimiter '
        'first, else longest delimiter): accept/reject, formula spans, display types, delimiters '
        'and per-character modes must agree. Non-trivial = >= 2 mode switches on a root-to-leaf '
        'path, or $ adjacent to $; distinct by source string.')
ASSUMPTIONS = ['math environments and \\ensuremath enter math mode with no delimiter; \\text-like '
               'arguments leave math mode (as the default context declares)']
NSHARDS = 16

_CTX = {}


def ctx(name):
    if name not in _CTX:
        _CTX[name] = contexts.build(name)
    return _CTX[name]


def node_mode(n):
    ps = n.parsing_state
    return (bool(ps.in_math_mode), ps.math_mode_delimiter)


def switches(nl):
    """max number of mode switches along a root-to-leaf path (own traversal)"""
    best = [0]

    def rec(n, mode, count):
        k = kind(n)
        if k == 'list':
            for c in (n.nodelist if hasattr(n, 'nodelist') else n):
                if c is not None:
                    rec(c, mode, count)
            return
        m = node_mode(n)[0]
        if m != mode:
            count += 1
        best[0] = max(best[0], count)
        if k in ('macro', 'environment', 'specials') and n.nodeargd is not None \
           and getattr(n.nodeargd, 'argnlist', None):
            for a in n.nodeargd.argnlist:
                if a is not None:
                    rec(a, m, count)
        if k in ('group', 'environment') and n.nodelist is not None:
            rec(n.nodelist, m, count)
        if k == 'math' and n.nodelist is not None:
            # contents are in math mode
            for c in n.nodelist:
                if c is not None:
                    rec(c, m, count)
    rec(nl, False, 0)
    return best[0]


def check_doc(signame, ast, res):
    res.case()
    src, modes, maths = docgrammar.render_modes(ast)
    ctxname = docgrammar.CTX_OF[signame]
    case = {'kind': 'doc', 'sig': signame, 'ast': ast}
    PE = px.parse_error_class()
    try:
        w, nl = px.parse(src, ctx(ctxname), tolerant=False)
    except PE as e:
        res.label('doc:rejected')
        res.fail('c10:document-rejected', 'well-formed document %r rejected: %s' % (src, e.msg),
                 case)
        return
    except Exception as e:
        res.fail(exc_key(e), exc_detail(e), case)
        return
    res.label('doc:parsed')
    real_maths = {}
    for n in walk(nl):
        k = kind(n)
        if n.pos is None or not (0 <= n.pos < len(modes)):
            continue
        want = modes[n.pos]
        got = node_mode(n)
        if got != want:
            res.fail('c10:mode:%s:%s' % (k, 'in-math-expected' if want[0] else 'text-expected')
                     + ('' if got[0] == want[0] else ':flag'),
                     '%s node at offset %d of %r records mode %r, enclosing structure implies %r'
                     % (k, n.pos, src, got, want), case)
        if k == 'math':
            real_maths[n.pos] = (n.pos_end, n.displaytype, tuple(n.delimiters))
    for (a, b, o, c, typ, outer) in maths:
        got = real_maths.get(a)
        if got != (b, typ, (o, c)):
            res.fail('c10:math-node:%s' % o, 'formula %r at %d..%d (%s): parser has %r'
                     % (src[a:b], a, b, typ, got), case)
    if len(real_maths) != len(maths):
        res.fail('c10:math-node-count', '%d math nodes for %d formulas in %r'
                 % (len(real_maths), len(maths), src), case)
    sw = switches(nl)
    res.label('switches:%d' % min(sw, 4))
    if sw >= 2:
        res.nontriv(src)
        res.label('non-trivial:nested-modes', {'src': src})


def real_view(s, nl):
    char_mode = [None] * len(s)
    maths, groups = [], []
    for n in walk(nl):
        k = kind(n)
        if k == 'chars':
            for i in range(n.pos, n.pos_end):
                char_mode[i] = node_mode(n)
        elif k == 'group':
            groups.append((n.pos, n.pos_end, node_mode(n)))
        elif k == 'math':
            maths.append((n.pos, n.pos_end, n.displaytype, n.delimiters[0], n.delimiters[1],
                          node_mode(n)))
    return char_mode, sorted(maths), sorted(groups)


def check_string(toks, res):
    res.case()
    s = ''.join(toks)
    case = {'kind': 'str', 'tokens': list(toks)}
    PE = px.parse_error_class()
    try:
        want = mathmini.parse(s)
    except mathmini.Reject:
        want = None
    try:
        w, nl = px.parse(s, ctx('default'), tolerant=False)
        got = nl
    except PE:
        got = None
    except Exception as e:
        res.fail(exc_key(e), exc_detail(e), case)
        return
    dd = '$$' in s
    if dd:
        res.label('dollar-run')
    if (want is None) != (got is None):
        res.fail('c10:accept-reject:%s' % ('parser-accepts' if got is not None else
                                           'parser-rejects'),
                 '%r: reference %s, parser %s' % (s, 'rejects' if want is None else 'accepts',
                                                  'rejects' if got is None else 'accepts'), case)
        return
    if want is None:
        res.label('str:both-reject')
        return
    res.label('str:both-accept', {'s': s})
    cm, maths, groups = real_view(s, got)
    # whitespace owned by nobody in particular is not compared: only characters that the
    # reference assigns to a chars run
    for i, m in enumerate(want.char_mode):
        if m is not None and cm[i] is not None and cm[i] != m:
            res.fail('c10:char-mode', '%r: character %d records mode %r, reference %r'
                     % (s, i, cm[i], m), case)
            return
    if sorted(want.maths) != maths:
        res.fail('c10:formula-boundaries' + (':dollar-run' if dd else ''),
                 '%r: formulas %r, reference %r' % (s, maths, sorted(want.maths)), case)
        return
    if sorted(want.groups) != groups:
        res.fail('c10:group-mode', '%r: groups %r, reference %r' % (s, groups, sorted(want.groups)),
                 case)
        return
    depth2 = any(m[5][0] for m in maths)
    if dd or depth2 or len(maths) >= 2:
        res.nontriv_distinct()
        res.label('non-trivial:string')


def plan(tier, seed):
    L, ndocs = (6, 3200) if tier == 'quick' else (7, 64000)
    shards = [('str', L, k) for k in range(NSHARDS)]
    shards += [('docs', ndocs // NSHARDS, seed * 1000 + k) for k in range(NSHARDS)]
    return {'shards': shards, 'bounds': {'string_len': L, 'alphabet': MATH9, 'documents': ndocs,
                                         'document_depth': 5},
            'required_classes': ['str:both-accept', 'str:both-reject', 'dollar-run',
                                 'non-trivial:string', 'non-trivial:nested-modes', 'doc:parsed',
                                 'switches:3']}


def run_shard(shard, res):
    if shard[0] == 'str':
        _, L, k = shard
        for toks in soups.enum_tokens(MATH9, L, k, NSHARDS):
            check_string(toks, res)
        res.exhaustive = True
    else:
        _, n, seed = shard
        hyp_run(docgrammar.document_strategy(('default-math', 'every-math'), depth=5, max_size=4),
                lambda d: check_doc(d[0], d[1], res), n, seed)


def check_case(case, res):
    if case['kind'] == 'str':
        check_string(case['tokens'], res)
    else:
        check_doc(case['sig'], case['ast'], res)


def minimise(case, key):
    if case['kind'] == 'str':
        def pred(t):
            r = Result()
            check_string(list(t), r)
            return key in r.failures
        return dict(case, tokens=ddmin(case['tokens'], pred))
    # AST: greedy deletion of top-level items (re-normalised each time)
    sig = docgrammar.SIGS[case['sig']]

    def pred(items):
        r = Result()
        check_doc(case['sig'], docgrammar.normalise(list(items), sig), r)
        return key in r.failures
    items = ddmin(case['ast'], pred)
    return dict(case, ast=docgrammar.normalise(list(items), sig))
