"""C10 -- each node's math/text mode is the one implied by the enclosing structure."""
import itertools
from .. import soups, px, contexts, docgrammar, monitor
from ..alphabets import MATH9
from ..engine import exc_key, exc_detail, ddmin, Result, hyp_run
from ..models import mathmini
from ..treedump import walk, kind

ID = 'C10'
LEVEL = 'exploration'
RULE = ('(a) Hypothesis grammar documents biased towards nested $ \\( $$ \\[, math environments, '
        '\\text-like macros, \\ensuremath, groups and non-math environments (depth <= 5, default '
        'and every-argument-type contexts): every node of the strict parse, located by its start '
        'offset, must record exactly the mode (in_math_mode, math_mode_delimiter) that the '
        'generating AST implies for that offset, and every math node the AST\'s display type and '
        'delimiters; (b) bounded-exhaustive strings over {$, a, {, }, space, \\(, \\), \\[, \\]}: '
        'differential against a 60-line recursive-descent reference (expected closing delimiter '
        'first, else longest delimiter): accept/reject, formula spans, display types, delimiters '
        'and per-character modes must agree. (c) table sweep: every math environment / text-mode macro of the default database in six '
        'hosts, blanks between \\begin / \\end and the name, mode of the text after the environment. '
        'Non-trivial = >= 2 mode switches on a root-to-leaf '
        'path, or $ adjacent to $; distinct by source string.')
ASSUMPTIONS = ['math environments and \\ensuremath enter math mode with no delimiter; \\text-like '
               'arguments leave math mode (as the default context declares)']
NSHARDS = 16

_CTX = {}


def ctx(name):
    if name not in _CTX:
        _CTX[name] = contexts.build(name)
    return _CTX[name]


def node_mode(n):
    ps = n.parsing_state
    return (bool(ps.in_math_mode), ps.math_mode_delimiter)


def switches(nl):
    """max number of mode switches along a root-to-leaf path (own traversal)"""
    best = [0]

    def rec(n, mode, count):
        k = kind(n)
        if k == 'list':
            for c in (n.nodelist if hasattr(n, 'nodelist') else n):
                if c is not None:
                    rec(c, mode, count)
            return
        m = node_mode(n)[0]
        if m != mode:
            count += 1
        best[0] = max(best[0], count)
        if k in ('macro', 'environment', 'specials') and n.nodeargd is not None \
           and getattr(n.nodeargd, 'argnlist', None):
            for a in n.nodeargd.argnlist:
                if a is not None:
                    rec(a, m, count)
        if k in ('group', 'environment') and n.nodelist is not None:
            rec(n.nodelist, m, count)
        if k == 'math' and n.nodelist is not None:
            # contents are in math mode
            for c in n.nodelist:
                if c is not None:
                    rec(c, m, count)
    rec(nl, False, 0)
    return best[0]


def check_doc(signame, ast, res):
    res.case()
    src, modes, maths = docgrammar.render_modes(ast)
    ctxname = docgrammar.CTX_OF[signame]
    case = {'kind': 'doc', 'sig': signame, 'ast': ast}
    PE = px.parse_error_class()
    try:
        w, nl = px.parse(src, ctx(ctxname), tolerant=False)
    except PE as e:
        res.label('doc:rejected')
        res.fail('c10:document-rejected', 'well-formed document %r rejected: %s' % (src, e.msg),
                 case)
        return
    except Exception as e:
        res.fail(exc_key(e), exc_detail(e), case)
        return
    res.label('doc:parsed')
    real_maths = {}
    for n in walk(nl):
        k = kind(n)
        if n.pos is None or not (0 <= n.pos < len(modes)):
            continue
        want = modes[n.pos]
        got = node_mode(n)
        if (want[0] and want[1] is None) or not want[0]:
            # math without an opening delimiter, or text mode (the delimiter field only means
            # something in math mode): only the flag is claimed
            got, want = (got[0], None), (want[0], None)
        if k == 'group' and got[0] != want[0] and src[n.pos:n.pos + 1] == '{' \
                and modes[n.pos + 1:n.pos + 2] and modes[n.pos + 1][0] == got[0]:
            # the brace pair of an argument whose contents switch mode: the statement speaks of
            # the argument's contents; the pair itself may belong to either side
            continue
        if got != want:
            res.fail('c10:mode:%s:%s' % (k, 'in-math-expected' if want[0] else 'text-expected')
                     + ('' if got[0] == want[0] else ':flag'),
                     '%s node at offset %d of %r records mode %r, enclosing structure implies %r'
                     % (k, n.pos, src, got, want), case)
        if k == 'math':
            real_maths[n.pos] = (n.pos_end, n.displaytype, tuple(n.delimiters))
    for (a, b, o, c, typ, outer) in maths:
        got = real_maths.get(a)
        if got != (b, typ, (o, c)):
            res.fail('c10:math-node:%s' % o, 'formula %r at %d..%d (%s): parser has %r'
                     % (src[a:b], a, b, typ, got), case)
    if len(real_maths) != len(maths):
        res.fail('c10:math-node-count', '%d math nodes for %d formulas in %r'
                 % (len(real_maths), len(maths), src), case)
    sw = switches(nl)
    res.label('switches:%d' % min(sw, 4))
    if sw >= 2:
        res.nontriv(src)
        res.label('non-trivial:nested-modes', {'src': src})


def real_view(s, nl):
    char_mode = [None] * len(s)
    maths, groups = [], []
    for n in walk(nl):
        k = kind(n)
        if k == 'chars':
            for i in range(n.pos, n.pos_end):
                char_mode[i] = node_mode(n)
        elif k == 'group':
            groups.append((n.pos, n.pos_end, node_mode(n)))
        elif k == 'math':
            maths.append((n.pos, n.pos_end, n.displaytype, n.delimiters[0], n.delimiters[1],
                          node_mode(n)))
    return char_mode, sorted(maths), sorted(groups)


def check_string(toks, res):
    res.case()
    s = ''.join(toks)
    case = {'kind': 'str', 'tokens': list(toks)}
    PE = px.parse_error_class()
    try:
        want = mathmini.parse(s)
    except mathmini.Reject:
        want = None
    try:
        w, nl = px.parse(s, ctx('default'), tolerant=False)
        got = nl
    except PE:
        got = None
    except Exception as e:
        res.fail(exc_key(e), exc_detail(e), case)
        return
    dd = '$$' in s
    if dd:
        res.label('dollar-run')
    nested_in_math = want is not None and any(m[5][0] for m in want.maths)
    if got is None and nested_in_math:
        # a formula opened while already in math mode: LaTeX itself rejects that, a parser may
        res.label('str:formula-inside-math-rejected')
        return
    if (want is None) != (got is None):
        res.fail('c10:accept-reject:%s' % ('parser-accepts' if got is not None else
                                           'parser-rejects'),
                 '%r: reference %s, parser %s' % (s, 'rejects' if want is None else 'accepts',
                                                  'rejects' if got is None else 'accepts'), case)
        return
    if want is None:
        res.label('str:both-reject')
        return
    res.label('str:both-accept', {'s': s})
    cm, maths, groups = real_view(s, got)
    # whitespace owned by nobody in particular is not compared: only characters that the
    # reference assigns to a chars run
    for i, m in enumerate(want.char_mode):
        if m is not None and cm[i] is not None and cm[i] != m:
            res.fail('c10:char-mode', '%r: character %d records mode %r, reference %r'
                     % (s, i, cm[i], m), case)
            return
    if sorted(want.maths) != maths:
        res.fail('c10:formula-boundaries' + (':dollar-run' if dd else ''),
                 '%r: formulas %r, reference %r' % (s, maths, sorted(want.maths)), case)
        return
    if sorted(want.groups) != groups:
        res.fail('c10:group-mode', '%r: groups %r, reference %r' % (s, groups, sorted(want.groups)),
                 case)
        return
    depth2 = any(m[5][0] for m in maths)
    if dd or depth2 or len(maths) >= 2:
        res.nontriv_distinct()
        res.label('non-trivial:string')


# the display-math environments of LaTeX / amsmath and the text-in-math macros that the default
# context declares (list written from the LaTeX side; a name the context does not declare at all
# is skipped, a declared one must switch the mode)
MATH_ENVIRONMENTS = ['equation', 'equation*', 'eqnarray', 'eqnarray*', 'align', 'align*', 'gather',
                     'gather*', 'flalign', 'flalign*', 'multline', 'multline*', 'alignat',
                     'alignat*', 'split']
TEXT_MACROS = ['text', 'textrm', 'textbf', 'textit', 'textsf', 'texttt', 'textsc', 'textsl',
               'mbox', 'textup', 'textmd']
BEGIN_END_BLANKS = [('', ''), (' ', ''), ('', ' '), ('\n', '\t')]
ENV_HOSTS = [('top-level', 'A %s B', False), ('in-group', '{A %s} B', False),
             ('in-text-in-math', '$a \\text{b %s c} d$', False),
             ('in-itemize', '\\begin{itemize}\\item %s\\end{itemize}', False),
             ('in-font-argument', '\\textbf{%s}', False),
             ('in-display-math', '\\[ a %s b \\]', True)]


def check_tables(res):
    from pylatexenc.latexwalker import get_default_latex_context_db
    from ..treedump import walk
    db = get_default_latex_context_db()

    def modes(nodes):
        return [bool(n.parsing_state.in_math_mode) for x in nodes if x is not None
                for n in walk(x) if kind(n) != 'list']
    for name in MATH_ENVIRONMENTS:
        if db.get_environment_spec(name, raise_if_not_found=False) is None or \
                not getattr(db.get_environment_spec(name), 'environmentname', ''):
            continue
        arg = '{2}' if name.startswith('alignat') else ''
        for (host, tpl, outer_math), (b1, b2) in itertools.product(ENV_HOSTS, BEGIN_END_BLANKS):
            if name == 'split' and not outer_math:
                continue        # split only exists inside another display-math construct
            # TeX skips blanks between \begin / \end and the braced name
            envsrc = '\\begin%s{%s}%s x \\alpha {y} \\end%s{%s} zq' % (b1, name, arg, b2, name)
            src = tpl % envsrc
            res.case()
            case = {'kind': 'table', 'src': src, 'what': 'env:' + name, 'host': host}
            try:
                w, nl = px.parse(src, None, tolerant=False)
            except Exception as e:
                res.fail(exc_key(e), exc_detail(e) + ' on %r' % src, case)
                continue
            envs = [n for n in walk(nl) if kind(n) == 'environment' and n.environmentname == name]
            if len(envs) != 1:
                res.fail('c10:table:environment-not-found', '%r' % src, case)
                continue
            env = envs[0]
            body = modes([env.nodelist])
            args = modes(list(env.nodeargd.argnlist) if env.nodeargd is not None else [])
            # the body was not opened by a math-shift delimiter: whatever it records as its opening
            # delimiter, it is not one of those (stale from a formula opened earlier)
            stale = [n.parsing_state.math_mode_delimiter for n in walk(env.nodelist)
                     if kind(n) != 'list' and n.parsing_state.math_mode_delimiter in
                     ('$', '$$', '\\(', '\\[')]
            if stale:
                res.fail('c10:math-environment-body-records-a-delimiter',
                         'body of %s in %r records the opening delimiter %r' % (name, src, stale[0]),
                         case)
            if not body or not all(body):
                res.fail('c10:math-environment-body-not-in-math-mode:' + ('starred' if name.endswith('*')
                                                                          else 'plain'),
                         'body of %s in %r records modes %r' % (name, src, body), case)
            if args and any(a != outer_math for a in args):
                res.fail('c10:math-environment-argument-mode', 'arguments of %s in %r record math '
                         'mode %r, the enclosing mode is %r' % (name, src, args, outer_math), case)
            after = [bool(n.parsing_state.in_math_mode) for n in walk(nl)
                     if kind(n) == 'chars' and 'zq' in n.chars]
            if after != [outer_math]:
                res.fail('c10:mode-after-math-environment', 'text after \\end{%s} in %r records math '
                         'mode %r, the enclosing mode is %r' % (name, src, after, outer_math), case)
            if bool(env.parsing_state.in_math_mode) != outer_math:
                res.fail('c10:math-environment-node-mode', '%s node itself in %r records %r'
                         % (name, src, env.parsing_state.in_math_mode), case)
            res.nontriv(src)
        res.label('table:math-environment')
    for name in TEXT_MACROS + ['ensuremath']:
        want = (name == 'ensuremath')
        sp = db.get_macro_spec(name)
        if sp is None or not getattr(sp, 'macroname', '') or \
                not (getattr(sp, 'arguments_spec_list', None) or []):
            continue        # not declared (with an argument) in this context: nothing is claimed
        for src, outer in (('$a \\%s{b \\alpha {c}} d$' % name, True),
                           ('\\[ \\frac{\\%s{b c}}{2} \\]' % name, True),
                           ('a \\%s{b c} d' % name, False),
                           ('\\begin{equation}\\%s{b c d}\\end{equation}' % name, True)):
            res.case()
            case = {'kind': 'table', 'src': src, 'what': 'macro:' + name}
            try:
                w, nl = px.parse(src, None, tolerant=False)
            except Exception as e:
                res.fail(exc_key(e), exc_detail(e) + ' on %r' % src, case)
                continue
            ms = [n for n in walk(nl) if kind(n) == 'macro' and n.macroname == name]
            if len(ms) != 1 or ms[0].nodeargd is None or not ms[0].nodeargd.argnlist:
                res.fail('c10:table:macro-argument-not-found', '%r' % src, case)
                continue
            grp = ms[0].nodeargd.argnlist[0]
            inner = [bool(n.parsing_state.in_math_mode) for n in grp.nodelist
                     if n is not None and kind(n) in ('chars', 'macro', 'group')]
            if not inner or any(m != want for m in inner):
                res.fail('c10:%s-argument-mode' % ('ensuremath' if want else 'text-macro'),
                         'contents of the argument of \\%s in %r record math mode %r, expected %r'
                         % (name, src, inner, want), case)
            if bool(ms[0].parsing_state.in_math_mode) != outer:
                res.fail('c10:table:macro-node-mode', '\\%s itself in %r records %r'
                         % (name, src, ms[0].parsing_state.in_math_mode), case)
            res.nontriv(src)
        res.label('table:mode-switching-macro')
    res.exhaustive = True


SCOPE_CONSTRUCTS = [('$', '$', True), ('\\(', '\\)', True), ('$$', '$$', True), ('\\[', '\\]', True),
                    ('{', '}', None), ('\\begin{zzx}', '\\end{zzx}', None),     # None: inherits
                    ('\\begin{zzeq}', '\\end{zzeq}', True), ('\\zzopt[', ']', None),
                    ('\\zztext{', '}', False), ('\\zzmath{', '}', True)]
SCOPE_HOSTS = [('%s', False), ('{%s}', False), ('\\zztext{%s}', False), ('$%s$', True),
               ('\\begin{zzeq}%s\\end{zzeq}', True)]


def check_scoping(res):
    """a macro whose specification changes the parsing state for what follows it (a switch), used
    inside a construct: what follows the *construct* has the mode -- and the other recorded
    settings -- of the construct's parent, whatever happened inside ("everything else inherits
    from its parent")"""
    from pylatexenc.macrospec import LatexContextDb, MacroSpec, EnvironmentSpec
    from pylatexenc.latexnodes import ParsingStateDelta, ParsingStateDeltaEnterMathMode
    from pylatexenc.latexwalker import LatexWalker
    from ..treedump import walk
    import pylatexenc.latexnodes as LN
    text_delta = getattr(LN, 'ParsingStateDeltaLeaveMathMode', None)
    db = LatexContextDb()
    macros = [
        MacroSpec('zzsw', '', make_after_parsing_state_delta=lambda parsed_node, latex_walker:
                  ParsingStateDelta(set_attributes=dict(enable_comments=False))),
        MacroSpec('zzopt', '['), MacroSpec('zzmath', [LN.LatexArgumentSpec(
            '{', parsing_state_delta=ParsingStateDeltaEnterMathMode())])]
    if text_delta is not None:
        macros.append(MacroSpec('zztext', [LN.LatexArgumentSpec('{', parsing_state_delta=text_delta())]))
    db.add_context_category('c10scope', macros=macros, environments=[
        EnvironmentSpec('zzx', ''), EnvironmentSpec('zzeq', '', is_math_mode=True)])
    db.set_unknown_macro_spec(MacroSpec(''))
    for (o, c, inner_math), (host, host_math) in itertools.product(SCOPE_CONSTRUCTS, SCOPE_HOSTS):
        if text_delta is None and ('zztext' in o or 'zztext' in host):
            continue
        if o in ('$', '$$') and host.startswith('$'):
            continue        # (dollar inside dollar math closes it)
        if inner_math and host_math and o in ('\\(', '\\[', '$', '$$'):
            continue        # a formula directly inside a formula may be rejected
        decl = 'inherit' if inner_math is None else ('math' if inner_math else 'text')
        if inner_math is None:
            inner_math = host_math
        src = host % ('pq ' + o + 'in \\zzsw sw' + c + ' zq %c\n')
        res.case()
        case = {'kind': 'scoping', 'src': src}
        try:
            w = LatexWalker(src, latex_context=db, tolerant_parsing=False)
            nl, _, _ = w.get_latex_nodes()
        except Exception as e:
            res.fail(exc_key(e), exc_detail(e) + ' on %r' % src, case)
            continue
        seen = {}
        for n in walk(nl):
            if kind(n) == 'chars':
                for word in ('pq', 'in', 'sw', 'zq'):
                    if word in n.chars:
                        seen[word] = (bool(n.parsing_state.in_math_mode),
                                      bool(n.parsing_state.enable_comments))
        ncomments = sum(1 for n in walk(nl) if kind(n) == 'comment')
        want = {'pq': (host_math, True), 'in': (inner_math, True), 'sw': (inner_math, False),
                'zq': (host_math, True)}
        for word in ('pq', 'in', 'sw', 'zq'):
            if seen.get(word) != want[word]:
                res.fail('c10:scoping:%s:%s' % ({'pq': 'before', 'in': 'inside', 'sw': 'after-switch',
                                                 'zq': 'after-construct'}[word],
                                                decl + '-construct'),
                         '%r: the text %r records (math mode, comments enabled) = %r, expected %r'
                         % (src, word, seen.get(word), want[word]), case)
                break
        else:
            if ncomments != 1:
                res.fail('c10:scoping:comment-after-construct', '%r: %d comment nodes, the comment '
                         'after the construct is one' % (src, ncomments), case)
        res.nontriv(src)
    res.label('scoping:switch-inside-construct')


def plan(tier, seed):
    L, ndocs = (6, 3200) if tier == 'quick' else (7, 64000)
    shards = [('str', L, k) for k in range(NSHARDS)]
    shards += [('docs', ndocs // NSHARDS, seed * 1000 + k) for k in range(NSHARDS)]
    shards += [('tables',)]
    shards += [('delims', 3 if tier == 'quick' else 4, k) for k in range(NSHARDS)]
    return {'shards': shards, 'bounds': {'string_len': L, 'alphabet': MATH9, 'documents': ndocs,
                                         'document_depth': 5},
            'required_classes': ['str:both-accept', 'str:both-reject', 'dollar-run',
                                 'non-trivial:string', 'non-trivial:nested-modes', 'doc:parsed',
                                 'table:math-environment',
                                 'table:mode-switching-macro',
                                 'scoping:switch-inside-construct',
                                 'delims:formula-under-restricted-lists',
                                 'delims:derived-state']}


_INL = [('$', '$'), ('\\(', '\\)')]
_DSP = [('$$', '$$'), ('\\[', '\\]')]


def check_restricted_delims(L, k, res):
    """parses started in a state whose math-delimiter lists were restricted -- built in one go,
    or derived from the default state by one / two sub_context() calls (also down to the empty
    list): a formula node exists only for a pair the state declares, with the display type of
    the list the pair is in, and its children record that formula's mode"""
    configs = [(inl, dsp) for inl in ([], _INL[:1], _INL[1:], _INL)
               for dsp in ([], _DSP[:1], _DSP[1:], _DSP)]
    for toks in soups.enum_tokens(MATH9, L, k, NSHARDS, minlen=2):
        if not any(t in ('$', '\\(', '\\[') for t in toks):
            continue
        for inl, dsp in configs:
            for how in ('fresh', 'derived-1', 'derived-2'):
                check_delims_one(toks, inl, dsp, how, res)


def check_delims_one(toks, inl, dsp, how, res):
    from pylatexenc.latexnodes.parsers import LatexGeneralNodesParser
    PE = px.parse_error_class()
    res.case()
    s = ''.join(toks)
    inl = [tuple(x) for x in inl]
    dsp = [tuple(x) for x in dsp]
    case = {'kind': 'delims', 'tokens': list(toks), 'inline': [list(x) for x in inl],
            'display': [list(x) for x in dsp], 'how': how}
    w = px.walker(s, ctx('default'), False)
    kw = dict(latex_inline_math_delimiters=list(inl), latex_display_math_delimiters=list(dsp))
    try:
        if how == 'fresh':
            ps = w.make_parsing_state(**kw)
        elif how == 'derived-1':
            ps = w.make_parsing_state().sub_context(**kw)
        else:
            ps = w.make_parsing_state().sub_context(
                latex_inline_math_delimiters=kw['latex_inline_math_delimiters']
            ).sub_context(latex_display_math_delimiters=kw['latex_display_math_delimiters'])
        with monitor.budget(len(s)):
            nl, _ = w.parse_content(LatexGeneralNodesParser(), parsing_state=ps)
    except PE:
        return
    except Exception as e:
        res.fail(exc_key(e), exc_detail(e) + ' on %r' % (case,), case)
        return
    if how != 'fresh':
        res.label('delims:derived-state')
    for n in walk(nl):
        if kind(n) != 'math':
            continue
        res.label('delims:formula-under-restricted-lists')
        pair = tuple(n.delimiters)
        declared = (pair in inl and n.displaytype == 'inline') or \
            (pair in dsp and n.displaytype == 'display')
        if not declared:
            res.fail('c10:formula-for-undeclared-delimiter',
                     '%r (%s state, inline %r, display %r): %s formula with delimiters %r'
                     % (s, how, inl, dsp, n.displaytype, pair), case)
            return
        bad = [c for c in n.nodelist if c is not None and node_mode(c) != (True, pair[0])]
        if bad:
            res.fail('c10:formula-child-mode',
                     '%r (%s state): child of formula %r records mode %r'
                     % (s, how, pair, node_mode(bad[0])), case)
            return


def run_shard(shard, res):
    if shard[0] == 'delims':
        check_restricted_delims(shard[1], shard[2], res)
        res.exhaustive = True
        return
    if shard[0] == 'tables':
        check_tables(res)
        check_scoping(res)
        return
    if shard[0] == 'str':
        _, L, k = shard
        for toks in soups.enum_tokens(MATH9, L, k, NSHARDS):
            check_string(toks, res)
        res.exhaustive = True
    else:
        _, n, seed = shard
        hyp_run(docgrammar.document_strategy(('default-math', 'every-math'), depth=5, max_size=4),
                lambda d: check_doc(d[0], d[1], res), n, seed)


def check_case(case, res):
    if case['kind'] in ('table', 'scoping'):
        r2 = Result()
        (check_tables if case['kind'] == 'table' else check_scoping)(r2)
        for key, l in r2.failures.items():
            for f in l:
                if f['case'].get('src') == case['src']:
                    res.fail(key, f['detail'], case)
        res.case()
        return
    if case['kind'] == 'delims':
        check_delims_one(case['tokens'], case['inline'], case['display'], case['how'], res)
    elif case['kind'] == 'str':
        check_string(case['tokens'], res)
    else:
        check_doc(case['sig'], case['ast'], res)


def minimise(case, key):
    if case['kind'] in ('table', 'scoping', 'delims'):
        return case
    if case['kind'] == 'str':
        def pred(t):
            r = Result()
            check_string(list(t), r)
            return key in r.failures
        return dict(case, tokens=ddmin(case['tokens'], pred))
    # AST: greedy deletion of top-level items (re-normalised each time)
    sig = docgrammar.SIGS[case['sig']]

    def pred(items):
        r = Result()
        check_doc(case['sig'], docgrammar.normalise(list(items), sig), r)
        return key in r.failures
    items = ddmin(case['ast'], pred)
    return dict(case, ast=docgrammar.normalise(list(items), sig))
