"""C18 -- node-list splitting and key-value parsing are order-preserving partitions."""
import itertools
import re

from .. import px
from ..engine import exc_key, exc_detail, ddmin, Result, hyp_run
from ..models import split_model as M
from ..treedump import kind

ID = 'C18'
LEVEL = 'exploration'
RULE = ('argument-like content built from a token alphabet (characters, separators , = ; : in '
        'every position incl. leading/trailing/adjacent, groups and macros containing separators, '
        'comments containing separators, optional None entries), parsed strictly, then split. '
        'Bounded-exhaustive over token lists (<= 4 quick / <= 5 thorough) plus Hypothesis lists up '
        'to 12 tokens; options keep_empty x max_split (None,0,1,2,n+1) x skip_none x separator kind '
        '(string, 2-char string, compiled regex, callable returning a pair, callable returning a '
        'match object); split_at_node with node predicates, keep_separators, max_split; '
        'parse_keyval_content with the four repeated-key policies and default values. Oracle: '
        'string-plus-mask reference model (separator occurrences inside top-level chars nodes '
        'only): keep_empty=True equals Python-style splitting; keep_empty=False without max_split '
        'the same minus empty parts; with max_split a validity predicate (<= n+1 parts, ordered, '
        'disjoint, separator-free except the last, only separators between them); node and list '
        'positions anchored in the source; key-value = split at commas then at the first equals '
        'sign. Argument views: get_content_nodelist() by the documented double-group rule, '
        'parse_content_as_keyval() = parse_keyval_content() of it; filter() = order-preserving '
        'sub-list under 24 flag sets; get_content_as_chars() against a recursive model. '
        'Non-trivial = >= 2 separators of which one is protected inside a child, or adjacent '
        'separators, or max_split smaller than the separator count; distinct by (list, options).')
ASSUMPTIONS = ['top-level chars-node spans are taken from the strict parse (C01 covers them)',
               'keys are made of characters only']
NSHARDS = 16

ALPHA = ['a', 'b', ',', '=', ';', ':', ' ', '{a,b=c}', '\\textbf{x,y}', '%c,=\n', '{}']
ALPHA_NODE = ['a', ' ', '\\\\', '&', '{a\\\\b&c}', '%c\n', '\\textbf{&}', '~']
ALPHA_KV = ['a', 'b', ',', '=', ' ', '{x,y=z}', '{}', '\\textbf{k=v}', '%c,=\n']

SEP_KINDS = [('str', ','), ('str', '::'), ('rx', '[,;]'), ('callpair', ','), ('callmatch', '[,;]'),
             ('str', '='), ('rx', ',+'), ('rx', ' *, *'), ('calldone-neg', ','),
             ('calldone-empty', ','), ('calldone-match', ','),
             # patterns that look to the left of the match (lookbehind, anchor, word boundary):
             # the search runs on the chars node's text from the current position, as
             # pattern.search(text, pos) does, not on a slice
             ('rx', '(?<!,),'), ('rx', '^;|,'), ('callmatch', '(?<=a),|;')]
# child node kinds the statement names (math, environments, specials) in a second alphabet
ALPHA2 = ['a', ',', '=', ' ', '$x,y=z$', '\\begin{x}a,b=c\\end{x}', '~', '{a,b}']


def sep_object(sk):
    k, v = sk
    if k == 'str':
        return v
    if k == 'rx':
        return re.compile(v)
    if k == 'callpair':
        def f(chars, pos):
            i = chars.find(v, pos)
            if i < 0:
                return None
            return (i, i + len(v))
        return f
    if k.startswith('calldone'):
        # the other documented ways for a callable to say "no further separator"
        class NoMatch(object):
            def start(self):
                return -1

            def end(self):
                return -1
        done = {'calldone-neg': (-1, -1), 'calldone-empty': [], 'calldone-match': NoMatch()}[k]

        def g(chars, pos):
            i = chars.find(v, pos)
            if i < 0:
                return done
            return (i, i + len(v))
        return g
    rx = re.compile(v)
    return lambda chars, pos: rx.search(chars, pos)


def model_finder(sk):
    k, v = sk
    if k in ('str', 'callpair') or k.startswith('calldone'):
        return M.sep_finder(('str', v))
    return M.sep_finder(('rx', v))


def top_spans(nl):
    return [(n.pos, n.pos_end) for n in nl.nodelist if n is not None and kind(n) == 'chars']


def part_verbatim(part):
    return ''.join(n.latex_verbatim() for n in part.nodelist if n is not None)


def list_verbatim_mismatch(lst):
    """the list's own latex_verbatim() is the text of its nodes, one after the other (also for a
    list whose nodes are not adjacent in the source, as the concatenated values of a repeated
    key); returns a description or None"""
    if not hasattr(lst, 'latex_verbatim') or not hasattr(lst, 'nodelist'):
        return None
    want = part_verbatim(lst)
    try:
        got = lst.latex_verbatim()
    except Exception as e:
        return 'latex_verbatim() of the list raised %s' % exc_detail(e)
    if got != want:
        return 'latex_verbatim() of the list is %r, its nodes read %r' % (got, want)
    return None


def check_nodes_anchored(s, parts, res, case, what):
    for part in parts:
        nodes = [n for n in part.nodelist if n is not None]
        for n in nodes:
            if n.pos is None or n.pos_end is None or not (0 <= n.pos <= n.pos_end <= len(s)):
                res.fail('c18:node-position:%s' % what, 'node %r has pos %r..%r'
                         % (kind(n), n.pos, n.pos_end), case)
                return False
            if kind(n) == 'chars' and s[n.pos:n.pos_end] != n.chars:
                res.fail('c18:chars-node-position:%s' % what,
                         'chars node %r claims source [%d:%d] = %r'
                         % (n.chars, n.pos, n.pos_end, s[n.pos:n.pos_end]), case)
                return False
        if nodes:
            if part.pos is None or part.pos_end is None or part.pos > nodes[0].pos \
               or part.pos_end < nodes[-1].pos_end:
                res.fail('c18:list-position:%s' % what,
                         'part list pos %r..%r does not bracket its nodes %d..%d'
                         % (part.pos, part.pos_end, nodes[0].pos, nodes[-1].pos_end), case)
                return False
    return True


def check_split_chars(s, nl, opt, res, case):
    sk, keep_empty, max_split, skip_none = opt['sep'], opt['keep_empty'], opt['max_split'], \
        opt['skip_none']
    res.case()
    seps = M.separators(s, top_spans(nl), model_finder(sk))
    nsep = len(seps)
    ms = max_split
    if ms == 'n+1':
        ms = nsep + 1
    try:
        parts = nl.split_at_chars(sep_object(sk), max_split=ms, keep_empty=keep_empty,
                                  skip_none=skip_none)
    except Exception as e:
        res.fail(exc_key(e), exc_detail(e), case)
        return
    tag = 'keep_empty' if keep_empty else 'drop_empty'
    tag += ':max_split' if max_split is not None else ''
    tag += ':' + sk[0]
    if not check_nodes_anchored(s, parts, res, case, tag):
        return
    start = 0
    end = len(s)
    n_none_in = sum(1 for n in nl.nodelist if n is None)
    n_none_out = sum(1 for p in parts for n in p.nodelist if n is None)
    if n_none_out > n_none_in or (skip_none and n_none_out) or \
            (not skip_none and keep_empty and n_none_out != n_none_in):
        # (with keep_empty off a part holding only placeholders may be dropped as empty)
        res.fail('c18:none-entries:%s' % ('skip_none' if skip_none else 'keep_none'),
                 '%d None entries in the list, %d in the parts (skip_none=%r)'
                 % (n_none_in, n_none_out, skip_none), case)
        return
    if n_none_out and not keep_empty:
        # a part holding only None placeholders is not empty for the implementation; it has
        # no source text, so it is left out of the textual comparison
        parts = [p for p in parts if any(n is not None for n in p.nodelist)]
    got = [part_verbatim(p) for p in parts]
    for p in parts:
        bad = list_verbatim_mismatch(p)
        if bad:
            res.fail('c18:list-verbatim:part', '%r: %s' % (s, bad), case)
            return
    if keep_empty or ms is None:
        spans = M.split_keep_empty(s, start, end, seps, ms)
        want = [s[a:b] for a, b in spans]
        if not keep_empty:
            want = [w for w in want if w != '']
        if got != want:
            res.fail('c18:split_at_chars:%s' % tag,
                     'split of %r at %r (max_split=%r, keep_empty=%r) = %r, model %r'
                     % (s, sk[1], ms, keep_empty, got, want), case)
            return
        if keep_empty:
            for p, (a, b) in zip(parts, spans):
                if n_none_out and not any(n is not None for n in p.nodelist):
                    continue    # only placeholders: no source position to speak of
                if not any(n is not None for n in p.nodelist):
                    continue    # an empty part has no node whose position could be wrong
                if p.pos is None or p.pos_end is None or not (a <= p.pos <= p.pos_end <= b):
                    res.fail('c18:list-position:%s' % tag,
                             'part %r has list pos %r..%r, model span %d..%d'
                             % (part_verbatim(p), p.pos, p.pos_end, a, b), case)
                    return
    else:
        # keep_empty=False with max_split: validity predicate
        if len(parts) > ms + 1:
            res.fail('c18:max_split-exceeded:%s' % tag,
                     '%d parts for max_split=%d on %r' % (len(parts), ms, s), case)
            return
        cur = 0
        finder = model_finder(sk)
        for i, p in enumerate(parts):
            nodes = [n for n in p.nodelist if n is not None]
            if not nodes:
                res.fail('c18:empty-part-kept:%s' % tag, 'empty part with keep_empty=False', case)
                return
            a, b = nodes[0].pos, nodes[-1].pos_end
            if a < cur:
                res.fail('c18:parts-overlap-or-disorder:%s' % tag,
                         'part %d starts at %d before %d' % (i, a, cur), case)
                return
            gap = s[cur:a]
            if not tiled_by_separators(cur, a, seps):
                res.fail('c18:content-lost-between-parts:%s' % tag,
                         'source %r between parts is not made of separators only' % gap, case)
                return
            if got[i] != s[a:b]:
                res.fail('c18:part-text:%s' % tag, 'part %d verbatim %r but source %r'
                         % (i, got[i], s[a:b]), case)
                return
            if i < len(parts) - 1 and any(a <= x and y <= b for x, y in seps):
                res.fail('c18:unsplit-separator-in-non-last-part:%s' % tag,
                         'part %d = %r still contains a top-level separator' % (i, got[i]), case)
                return
            cur = b
        if not tiled_by_separators(cur, len(s), seps):
            res.fail('c18:content-lost-after-last-part:%s' % tag,
                     'source %r after the last part is not made of separators only' % s[cur:], case)
    return nsep


def tiled_by_separators(lo, hi, seps):
    """[lo, hi) is exactly a run of the model's separator occurrences (found in context)"""
    starts = dict(seps)
    pos = lo
    while pos < hi:
        e = starts.get(pos)
        if e is None or e <= pos:
            return False
        pos = e
    return pos == hi


def only_separators(text, finder):
    pos = 0
    while pos < len(text):
        m = finder(text, pos)
        if m is None or m[0] != pos or m[1] <= pos:
            return False
        pos = m[1]
    return True


def check_split_node(s, nl, opt, res, case):
    res.case()
    which, keep_sep, max_split, skip_none = opt['pred'], opt['keep_separators'], \
        opt['max_split'], opt['skip_none']

    def pred(n):
        if n is None:
            return False
        if which == 'macro':
            return kind(n) == 'macro' and n.macroname == '\\'
        return kind(n) == 'specials' and n.specials_chars == '&'
    try:
        parts = nl.split_at_node(pred, skip_none=skip_none, keep_separators=keep_sep,
                                 max_split=max_split)
    except Exception as e:
        res.fail(exc_key(e), exc_detail(e), case)
        return
    src = [n for n in nl.nodelist if not (skip_none and n is None)]
    nsep = sum(1 for n in src if pred(n))
    tag = 'keep_separators' if keep_sep else 'drop_separators'
    flat = []
    for i, p in enumerate(parts):
        flat.extend(list(p.nodelist))
    if max_split is not None and len(parts) > max_split + 1:
        res.fail('c18:split_at_node:max_split-exceeded:%s' % tag,
                 '%d parts for max_split=%d' % (len(parts), max_split), case)
        return
    # order-preserving partition: walking through the source list, every node is either the
    # next node of the parts or a (dropped) separator
    it = iter(flat)
    nxt = next(it, None)
    have = len(flat) > 0
    used_seps = 0
    idx = 0
    fl = list(flat)
    for n in src:
        if idx < len(fl) and fl[idx] is n:
            idx += 1
        elif pred(n) and not keep_sep:
            used_seps += 1
        else:
            res.fail('c18:split_at_node:not-a-partition:%s' % tag,
                     'node %s of the list is neither in the parts nor a dropped separator'
                     % kind(n), case)
            return
    if idx != len(fl):
        res.fail('c18:split_at_node:extra-nodes:%s' % tag, 'parts contain nodes not in the list',
                 case)
        return
    if not keep_sep and used_seps != len(parts) - 1:
        res.fail('c18:split_at_node:separator-lost-without-split:%s' % tag,
                 '%d separator node(s) are missing from the parts but only %d split(s) were made '
                 '(max_split=%r): the unsplit remainder lost nodes' % (used_seps, len(parts) - 1,
                                                                      max_split), case)
        return
    if max_split is not None and max_split >= 1 and nsep >= 1 and len(parts) < 2:
        # "at most n splits ... the remainder unsplit": with n >= 1 and a separator present the
        # first separator does split (how many more of the n are used is left open: the
        # statement says "at most")
        res.fail('c18:split_at_node:no-split-although-allowed:%s' % tag,
                 'max_split=%d and %d separator node(s), but the list was not split' %
                 (max_split, nsep), case)
        return
    if max_split is None and len(parts) != nsep + 1:
        res.fail('c18:split_at_node:part-count:%s' % tag,
                 '%d parts for %d separators' % (len(parts), nsep), case)
    # a kept separator sits at a part boundary (first node of the part it opens, or last node of
    # the part it closes); no other position of a non-last part holds a separator
    for i, p in enumerate(parts[:-1] if max_split is not None else parts):
        nodes = [n for n in p.nodelist if n is not None]
        inner = nodes[1:-1] if keep_sep else nodes
        if any(pred(n) for n in inner):
            res.fail('c18:split_at_node:unsplit-separator:%s' % tag,
                     'part %d contains a separator node in its interior' % i, case)
            return
    if keep_sep:
        for i in range(1, len(parts)):
            prev = [n for n in parts[i - 1].nodelist if n is not None]
            cur = [n for n in parts[i].nodelist if n is not None]
            if not ((cur and pred(cur[0])) or (prev and pred(prev[-1]))):
                res.fail('c18:split_at_node:separator-not-kept', 'no separator node at the '
                         'boundary between parts %d and %d' % (i - 1, i), case)
                return
    return nsep


def check_keyval(s, nl, opt, res, case):
    from pylatexenc.latexnodes import LatexWalkerParseError
    res.case()
    action = opt['action']
    default = opt.get('default')
    csep, esep = opt.get('seps') or (',', '=')
    extract = opt.get('extract', True)
    spans = top_spans(nl)
    commas = M.separators(s, spans, M.sep_finder(('str', csep)))
    eqs = M.separators(s, spans, M.sep_finder(('str', esep)))
    parts = [p for p in M.split_keep_empty(s, 0, len(s), commas) if p[0] != p[1]]
    top = [(n.pos, n.pos_end, kind(n)) for n in nl.nodelist if n is not None]
    expect = []
    bad_key = False
    for span in parts:
        keyspan, valspan = M.first_top_level(s, span, eqs)
        kinds = [k for a, b, k in top if keyspan[0] <= a and b <= keyspan[1]]
        partial = [k for a, b, k in top if k == 'chars' and a < keyspan[1] and b > keyspan[0]]
        if any(k not in ('chars', 'comment', 'group') for k in kinds):
            bad_key = True
        expect.append((keyspan, valspan))
    kw = {'repeated_key_aggregate_action': action}
    if (csep, esep) != (',', '='):
        kw['comma_sep_chars'], kw['eq_sep_chars'] = csep, esep
    if not extract:
        kw['extract_value_group_contents'] = False
    if default == 'visible':
        kw['default_value_nodelist'] = px.parse('DFLT', None, tolerant=False, monitored=False)[1]
    elif default is not None:
        kw['default_value_nodelist'] = nl.latex_walker.make_nodelist(
            [], parsing_state=nl.parsing_state, pos=0, pos_end=0)
    if bad_key:
        res.label('keyval:non-character-key')
        return      # outside the stated domain (keys made of characters only)
    try:
        got = nl.parse_keyval_content(**kw)
        outcome = 'ok'
    except (ValueError, LatexWalkerParseError) as e:
        got, outcome = e, 'error'
    except Exception as e:
        res.fail(exc_key(e), exc_detail(e), case)
        return
    # model: key text = characters of the key span with comments and group braces removed
    def key_text(a, b):
        out = ''
        for x, y, k in top:
            if y <= a or x >= b:
                continue
            if k == 'chars':
                out += s[max(x, a):min(y, b)]
            elif k == 'group':
                out += s[x + 1:y - 1].replace('{', '').replace('}', '')
        return out
    model = {}
    order = []
    repeated = False
    special_empty_key = False
    for keyspan, valspan in expect:
        k = key_text(*keyspan)
        if keyspan[0] == keyspan[1]:
            special_empty_key = True
        v = None if valspan is None else s[valspan[0]:valspan[1]]
        if valspan is None and default == 'visible':
            v = 'DFLT'
        if valspan is not None:
            inner = [(x, y, kk) for x, y, kk in top if valspan[0] <= x and y <= valspan[1]]
            if extract and len(inner) == 1 and inner[0][2] == 'group' \
               and inner[0][0] == valspan[0] and inner[0][1] == valspan[1]:
                v = s[valspan[0] + 1:valspan[1] - 1]
        if k in model:
            repeated = True
            if action == 'first':
                pass
            elif action == 'last':
                model[k] = v
            elif action == 'concatenate':
                model[k] = (model[k] or '') + (v or '')
        else:
            model[k] = v
            order.append(k)
    tag = action
    if repeated:
        res.label('keyval:repeated-key:' + action)
    if action == 'error' and repeated:
        if outcome != 'error':      # (which exception class reports it is not stated)
            res.fail('c18:keyval:repeated-key-not-reported', 'repeated key in %r with action '
                     "'error' gave %s" % (s, outcome), case)
        return
    if outcome != 'ok':
        res.fail('c18:keyval:raises-%s:%s' % (outcome, tag),
                 'parse_keyval_content(%r) raised %s' % (s, exc_detail(got)), case)
        return
    gotd = {}
    for k, v in got.items():
        bad = list_verbatim_mismatch(v)
        if bad:
            res.fail('c18:list-verbatim:keyval-value:%s' % tag, '%r key %r: %s' % (s, k, bad), case)
            return
        try:
            gotd[k] = None if v is None else ''.join(
                n.latex_verbatim() for n in (v.nodelist if hasattr(v, 'nodelist') else v)
                if n is not None)
        except Exception as e:
            res.fail('c18:keyval:value-not-a-nodelist:%s' % tag,
                     'value for key %r is %r (%s)' % (k, type(v).__name__, exc_detail(e)), case)
            return
    want = {k: (v if v is not None else '') for k, v in model.items()}
    # keys are compared modulo blanks around them (whether "k = v" gives 'k' or 'k ' is not
    # stated), unless that would identify two different keys
    if len(set(k.strip() for k in want)) == len(want) and \
            len(set(k.strip() for k in gotd)) == len(gotd):
        want = {k.strip(): v for k, v in want.items()}
        gotd = {k.strip(): v for k, v in gotd.items()}
    if gotd != want:
        key = 'c18:keyval:differs:%s' % tag
        if special_empty_key:
            key = 'c18:keyval:empty-key:%s' % tag
        res.fail(key, 'parse_keyval_content(%r, %s) = %r, model (split at top-level commas, then '
                 'at the first top-level equals sign) = %r' % (s, action, gotd, want), case)
    return len(commas) + len(eqs)


def make_list(tokens, none_at):
    s = ''.join(tokens)
    w, nl = px.parse(s, None, tolerant=False, monitored=False)
    if none_at:
        nodes = list(nl.nodelist)
        for i in sorted(none_at, reverse=True):
            nodes.insert(min(i, len(nodes)), None)
        nl2 = w.make_nodelist(nodes, parsing_state=nl.parsing_state)
        if nl2.pos is None:
            nl2.pos, nl2.pos_end = 0, len(s)
        nl2.pos, nl2.pos_end = 0, len(s)
        return s, nl2
    return s, nl


CHARS_OPTS = []
for _sk in SEP_KINDS:
    for _ke in (True, False):
        for _ms in (None, 0, 1, 2, 'n+1'):
            CHARS_OPTS.append({'sep': list(_sk), 'keep_empty': _ke, 'max_split': _ms,
                               'skip_none': True})
NODE_OPTS = [{'pred': p, 'keep_separators': k, 'max_split': m, 'skip_none': sn}
             for p in ('macro', 'specials') for k in (False, True) for m in (None, 0, 1, 2)
             for sn in (True, False)]
KV_OPTS = [{'action': a, 'default': d} for a in ('first', 'last', 'concatenate', 'error')
           for d in (None, 'empty')]
KV_OPTS += [dict({'action': a, 'default': None}, **extra)
            for a in ('first', 'last', 'concatenate', 'error')
            for extra in ({'default': 'visible'}, {'seps': [';', ':']}, {'extract': False})]


def run_case(case, res, count=True):
    what = case['what']
    try:
        s, nl = make_list(case['tokens'], case.get('none_at') or [])
    except Exception:
        res.label('input-does-not-parse')
        return
    opt = case['opt']
    if what == 'kv' and opt.get('seps'):
        toks2 = [t.replace(',', opt['seps'][0]).replace('=', opt['seps'][1])
                 for t in case['tokens']]
        try:
            s, nl = make_list(toks2, case.get('none_at') or [])
        except Exception:
            res.label('input-does-not-parse')
            return
    if what == 'chars':
        opt = dict(opt, sep=tuple(opt['sep']))
        n = check_split_chars(s, nl, opt, res, case)
    elif what == 'node':
        n = check_split_node(s, nl, opt, res, case)
    else:
        n = check_keyval(s, nl, opt, res, case)
    return n


def _GNP():
    from pylatexenc.latexnodes.parsers import LatexGeneralNodesParser
    return LatexGeneralNodesParser()


ALPHA_ARG = ['a', ',', '=', '{', '}', '[', ']', ' ', '\\x', '%c\n', 'b']
_ARGDB = []


def arg_db():
    if not _ARGDB:
        from pylatexenc.macrospec import LatexContextDb, MacroSpec
        from pylatexenc.latexnodes import LatexArgumentSpec
        db = LatexContextDb()
        db.add_context_category('c18', macros=[
            MacroSpec('zzm', arguments_spec_list=[LatexArgumentSpec('{', argname='val')]),
            MacroSpec('zzo', arguments_spec_list=[LatexArgumentSpec('[', argname='opt'),
                                                  LatexArgumentSpec('{', argname='val')])])
        db.set_unknown_macro_spec(MacroSpec(''))
        _ARGDB.append(db)
    return _ARGDB[0]


def _kv_plain(d):
    """comparable form of a parse_keyval_content() result"""
    out = []
    for k, v in d.items():
        if isinstance(v, (list, tuple)):
            vv = [x if isinstance(x, (bool, str, type(None))) else x.latex_verbatim() for x in v]
        elif isinstance(v, (bool, str, type(None))):
            vv = v
        else:
            vv = v.latex_verbatim()
        out.append((k, vv))
    return out


def check_argument_views(tokens, res):
    """ParsedArgumentsInfo / SingleParsedArgumentInfo: get_content_nodelist() returns the contents
    of the argument's group -- the contents of a single inner group instead only when that group
    has *different* delimiters (the documented [{[}] idiom) -- and parse_content_as_keyval() is
    parse_keyval_content() of that list"""
    from pylatexenc.latexnodes import ParsedArgumentsInfo
    from pylatexenc.latexwalker import LatexWalker
    content = ''.join(tokens)
    for doc, argname, idx, opener in (('\\zzm{%s}' % content, 'val', 0, '{'),
                                      ('\\zzo[%s]{v}' % content, 'opt', 0, '['),
                                      ('\\zzo{%s}' % content, 'val', 1, '{')):
        case = {'what': 'argview', 'tokens': tokens, 'doc': doc}
        try:
            w = LatexWalker(doc, latex_context=arg_db(), tolerant_parsing=False)
            nl, _ = w.parse_content(_GNP())
        except Exception:
            res.label('input-does-not-parse')
            continue
        node = nl[0]
        if len(nl) != 1 or node.pos_end != len(doc) or node.nodeargd is None:
            res.label('argview:content-ends-the-argument-early')
            continue
        res.case()
        try:
            info = ParsedArgumentsInfo(node=node)
            a1, a2 = info.get_argument_info(argname), info.get_argument_info(idx)
            argnode = node.nodeargd.argnlist[idx]
            if argnode is None or not hasattr(argnode, 'delimiters') or \
                    argnode.delimiters[0] != opener:
                res.label('argview:argument-is-not-the-group')
                continue
            inner_text = doc[argnode.pos + 1:argnode.pos_end - 1]
            kids = [n for n in argnode.nodelist]
            want = inner_text
            unwrapped = False
            if len(kids) == 1 and kids[0] is not None and hasattr(kids[0], 'delimiters') and \
                    kids[0].delimiters and kids[0].delimiters[0] != opener:
                want = doc[kids[0].pos + 1:kids[0].pos_end - 1]
                unwrapped = True
            for label, a in (('by-name', a1), ('by-index', a2)):
                if not a.was_provided():
                    res.fail('c18:argview:was_provided', '%r %s' % (doc, label), case)
                got = a.get_content_nodelist()
                text = ''.join(n.latex_verbatim() for n in got if n is not None)
                if text != want:
                    res.fail('c18:argview:content-nodelist:%s' % ('different-delimiters' if unwrapped
                                                                   else 'same-or-no-inner-group'),
                             '%r: get_content_nodelist() (%s) gives %r, documented contents %r'
                             % (doc, label, text, want), case)
                    break
                for n in got:
                    if n is not None and doc[n.pos:n.pos_end] != n.latex_verbatim():
                        res.fail('c18:argview:node-position', '%r: node %r at %r..%r' %
                                 (doc, n.latex_verbatim(), n.pos, n.pos_end), case)
                raw = a.get_content_nodelist(unwrap_double_group=False)
                rtext = ''.join(n.latex_verbatim() for n in raw if n is not None)
                if rtext != inner_text:
                    res.fail('c18:argview:content-nodelist:no-unwrap', '%r: %r vs %r'
                             % (doc, rtext, inner_text), case)
            h = sum(len(t) * (i + 1) for i, t in enumerate(tokens))
            for j in range(3):
                opt = KV_OPTS[(h + j * 5) % len(KV_OPTS)]
                if opt.get('seps') or opt.get('extract') is False or opt.get('default'):
                    continue
                kw = {'repeated_key_action': opt['action']} if 'action' in opt else {}
                outs = []
                for fn in (lambda: a1.parse_content_as_keyval(**kw),
                           lambda: a1.get_content_nodelist().parse_keyval_content(**kw)):
                    try:
                        outs.append(('ok', _kv_plain(fn())))
                    except Exception as e:
                        outs.append(('raised',))
                if outs[0] != outs[1]:
                    res.fail('c18:argview:keyval-shorthand-differs', '%r %r: %r vs %r'
                             % (doc, kw, outs[0], outs[1]), case)
            res.label('argview:unwrapped' if unwrapped else 'argview:plain', case)
            if any(hasattr(k, 'delimiters') for k in kids if k is not None) and \
                    any(t in (',', '=') for t in tokens):
                res.nontriv_distinct()
                res.label('argview:group-with-separators')
        except Exception as e:
            res.fail(exc_key(e), exc_detail(e) + ' on %r' % doc, case)
    # absent optional argument, single-token argument
    res.case()
    try:
        w = LatexWalker('\\zzo a', latex_context=arg_db(), tolerant_parsing=False)
        nl, _ = w.parse_content(_GNP())
        info = ParsedArgumentsInfo(node=nl[0])
        o, v = info.get_argument_info('opt'), info.get_argument_info('val')
        ol, vl = list(o.get_content_nodelist()), list(v.get_content_nodelist())
        if o.was_provided() or ol != [None]:
            res.fail('c18:argview:absent-optional', 'was_provided=%r list=%r'
                     % (o.was_provided(), ol), {'what': 'argview', 'tokens': []})
        if len(vl) != 1 or vl[0].latex_verbatim() != 'a':
            res.fail('c18:argview:single-token-argument', repr(vl), {'what': 'argview', 'tokens': []})
    except Exception as e:
        res.fail(exc_key(e), exc_detail(e), {'what': 'argview', 'tokens': []})


ALPHA_FC = ['a', ' ', '{a b}', '{{a}%c\nb}', '%c\n', '\\textbf{x}', '$x$', '~', '{}', 'b,']
FILTER_OPTS = [{'skip_none': sn, 'skip_comments': sc, 'skip_whitespace_char_nodes': sw, 'pred': p}
               for sn in (True, False) for sc in (False, True) for sw in (False, True)
               for p in (None, 'chars', 'not-group')]


def _chars_model(nodes):
    """(text, ok): concatenation of character nodes at any group depth; comments and None
    skipped; ok False when any other node kind occurs"""
    out, ok = [], True
    for n in nodes:
        if n is None:
            continue
        k = kind(n)
        if k == 'comment':
            continue
        if k == 'group':
            t, o = _chars_model(list(n.nodelist))
            out.append(t)
            ok = ok and o
        elif k == 'chars':
            out.append(n.chars)
        else:
            ok = False
            break
    return ''.join(out), ok


def check_filter_and_chars(tokens, none_at, res):
    """LatexNodeList.filter(): the order-preserving sub-list of the nodes passing the flags and the
    predicate; get_content_as_chars(): the characters of the list with comments, None entries and
    group delimiters left out, an error for any other node"""
    try:
        s, nl = make_list(tokens, none_at)
    except Exception:
        return
    case = {'what': 'filter', 'tokens': tokens, 'none_at': none_at}
    res.case()
    nodes = list(nl.nodelist)
    want, ok = _chars_model(nodes)
    try:
        got = ('ok', nl.get_content_as_chars())
    except Exception as e:
        got = ('raised', exc_detail(e))
    if ok and got != ('ok', want):
        res.fail('c18:get_content_as_chars:differs', '%r: %r, expected %r' % (s, got, want), case)
    elif not ok and got[0] == 'ok':
        res.fail('c18:get_content_as_chars:accepts-non-character-node', '%r gives %r' % (s, got[1]),
                 case)
    res.label('content-as-chars:' + ('chars-only' if ok else 'other-node'))
    preds = {None: None, 'chars': lambda n: kind(n) == 'chars',
             'not-group': lambda n: n is None or kind(n) != 'group'}
    for opt in FILTER_OPTS:
        pf = preds[opt['pred']]
        exp = []
        for n in nodes:
            if n is None:
                if opt['skip_none']:
                    continue
                if opt['skip_comments'] or opt['skip_whitespace_char_nodes'] or \
                        opt['pred'] == 'chars':
                    exp = None      # a None entry reaches a type test: nothing is documented
                    break
                exp.append(n)
                continue
            if opt['skip_comments'] and kind(n) == 'comment':
                continue
            if opt['skip_whitespace_char_nodes'] and kind(n) == 'chars' and not n.chars.strip():
                continue
            if pf is not None and not pf(n):
                continue
            exp.append(n)
        if exp is None:
            continue
        res.case()
        try:
            r = nl.filter(pf, skip_none=opt['skip_none'], skip_comments=opt['skip_comments'],
                          skip_whitespace_char_nodes=opt['skip_whitespace_char_nodes'])
            rn = list(r)
        except Exception as e:
            res.fail(exc_key(e), exc_detail(e) + ' filter(%r) on %r' % (opt, s), dict(case, opt=opt))
            continue
        if len(rn) != len(exp) or any(a is not b for a, b in zip(rn, exp)):
            res.fail('c18:filter:wrong-nodes', '%r filter(%r): %r, expected %r'
                     % (s, opt, [None if n is None else n.latex_verbatim() for n in rn],
                        [None if n is None else n.latex_verbatim() for n in exp]), dict(case, opt=opt))
            continue
        real = [n for n in rn if n is not None]
        if real and (r.pos != real[0].pos or r.pos_end != real[-1].pos_end):
            res.fail('c18:filter:list-span', '%r filter(%r): list spans %r..%r, nodes %r..%r'
                     % (s, opt, r.pos, r.pos_end, real[0].pos, real[-1].pos_end), dict(case, opt=opt))
    if len(nodes) >= 2 and any(kind(n) in ('comment', 'group') for n in nodes if n is not None):
        res.nontriv_distinct(len(FILTER_OPTS))
        res.label('filter:non-trivial', case)


def classify(tokens, what):
    """non-trivial rule"""
    seps = [t for t in tokens if t in (',', '=', ';', ':', '\\\\', '&')]
    protected = [t for t in tokens if len(t) > 2 and any(c in t for c in ',=;&\\')]
    adjacent = any(a in ',=;:' and b in ',=;:' for a, b in zip(tokens, tokens[1:]))
    return (len(seps) >= 1 and protected) or adjacent or len(seps) >= 3


def plan(tier, seed):
    L, LN, LK, nrand = (4, 4, 5, 1600) if tier == 'quick' else (5, 5, 6, 32000)
    shards = [('chars', L, k) for k in range(NSHARDS)]
    shards += [('node', LN, k) for k in range(NSHARDS)]
    shards += [('kv', LK, k) for k in range(NSHARDS)]
    shards += [('chars2', L, k) for k in range(NSHARDS)]
    shards += [('argview', L, k) for k in range(NSHARDS)]
    shards += [('rand', nrand // NSHARDS, seed * 1000 + k) for k in range(NSHARDS)]
    return {'shards': shards,
            'bounds': {'tokens_chars': L, 'tokens_node': LN, 'tokens_keyval': LK,
                       'alphabet_chars': len(ALPHA), 'random_lists': nrand,
                       'option_sets': {'chars': len(CHARS_OPTS), 'node': len(NODE_OPTS),
                                       'keyval': len(KV_OPTS)}},
            'required_classes': ['chars:non-trivial', 'node:non-trivial', 'kv:non-trivial',
                                 'keyval:repeated-key:first', 'keyval:repeated-key:concatenate',
                                 'with-none-entries', 'argview:unwrapped', 'argview:plain',
                                 'argview:group-with-separators', 'filter:non-trivial',
                                 'content-as-chars:chars-only', 'content-as-chars:other-node',
                                 'separator-inside-math-or-environment']}


def enum(alpha, L, k):
    i = 0
    for l in range(0, L + 1):
        for toks in itertools.product(alpha, repeat=l):
            if i % NSHARDS == k:
                yield list(toks)
            i += 1


def run_shard(shard, res):
    what = shard[0]
    if what == 'rand':
        _, n, seed = shard
        from hypothesis import strategies as st
        strat = st.tuples(st.lists(st.sampled_from(ALPHA), max_size=12),
                          st.lists(st.integers(0, 6), max_size=2, unique=True),
                          st.sampled_from(CHARS_OPTS), st.booleans())

        def one(x):
            toks, none_at, opt, skip_none = x
            case = {'what': 'chars', 'tokens': toks, 'none_at': none_at,
                    'opt': dict(opt, skip_none=skip_none)}
            run_case(case, res)
            if none_at:
                res.label('with-none-entries')
            if classify(toks, 'chars'):
                res.nontriv(case)
        hyp_run(strat, one, n, seed)
        return
    _, L, k = shard
    if what == 'argview':
        for toks in enum(ALPHA_ARG, L, k):
            check_argument_views(toks, res)
        for toks in enum(ALPHA_FC, L, k):
            check_filter_and_chars(toks, [], res)
            if toks:
                check_filter_and_chars(toks, [len(toks) // 2], res)
        res.exhaustive = True
        return
    alpha, opts = {'chars': (ALPHA, CHARS_OPTS), 'node': (ALPHA_NODE, NODE_OPTS),
                   'kv': (ALPHA_KV, KV_OPTS), 'chars2': (ALPHA2, CHARS_OPTS)}[what]
    if what == 'chars2':
        # separators inside math, environments and next to specials: splitting and key-value
        # parsing over the second alphabet
        for toks in enum(alpha, L, k):
            h = sum(len(t) * (i + 1) for i, t in enumerate(toks))
            for j in range(6):
                run_case({'what': 'chars', 'tokens': toks, 'opt': opts[(h + j * 11) % len(opts)]},
                         res)
            for j in range(3):
                run_case({'what': 'kv', 'tokens': toks, 'opt': KV_OPTS[(h + j * 5) % len(KV_OPTS)]},
                         res)
            if any(len(t) > 3 for t in toks) and any(t in (',', '=') for t in toks):
                res.nontriv_distinct(9)
                res.label('separator-inside-math-or-environment', {'tokens': toks})
        return
    for toks in enum(alpha, L, k):
        nt = classify(toks, what)
        # the chars sweep at full length uses a rotating subset of the option sets per list
        use = opts
        if what == 'chars' and len(toks) >= 4:
            h = sum(len(t) * (i + 1) for i, t in enumerate(toks))
            use = [opts[(h + j * 7) % len(opts)] for j in range(8)]
        if what == 'kv' and len(toks) >= 5:
            h = sum(len(t) * (i + 1) for i, t in enumerate(toks))
            use = [opts[(h + j * 3) % len(opts)] for j in range(5)]
        for opt in use:
            case = {'what': what, 'tokens': toks, 'opt': opt}
            run_case(case, res)
            if what == 'node' and toks:
                run_case(dict(case, none_at=[len(toks) // 2]), res)
                res.label('with-none-entries')
            if nt:
                res.nontriv_distinct()
        if nt:
            res.label(what + ':non-trivial', {'tokens': toks})
    res.exhaustive = (what == 'node' or (what == 'chars' and L < 4) or (what == 'kv' and L < 5))


def check_case(case, res):
    if case['what'] == 'argview':
        check_argument_views(case['tokens'], res)
        return
    if case['what'] == 'filter':
        check_filter_and_chars(case['tokens'], case.get('none_at') or [], res)
        return
    run_case(case, res)


def minimise(case, key):
    def pred(t):
        r = Result()
        check_case(dict(case, tokens=list(t)), r)
        return key in r.failures
    return dict(case, tokens=ddmin(case['tokens'], pred))
