"""C06 -- tolerant mode: total, equals strict on valid input, keeps pre-error content."""
from hypothesis import strategies as st

import itertools
import os
from .. import soups, px, contexts, monitor, docgrammar
from ..alphabets import SIG, SIG_SMALL, EVERYTYPE_TOKENS, STRUCTURAL
from ..engine import exc_key, exc_detail, ddmin, hyp_run, Result
from ..treedump import dump, kinds_present
from ..contexts import EXTRA_TOKENS, OPTIONS_TOKENS
from ..alphabets import LEGACY

ID = 'C06'
LEVEL = 'exploration'
RULE = ('(a) bounded-exhaustive token soups (default context: 46-token alphabet; every-argument-'
        'type context: reduced alphabet + its tokens) and Hypothesis random soups up to 40 tokens; '
        '(b) grammar documents; (c) composites D + [opener + D2] + T + G with D a well-formed '
        'document closed by a group, T a stray closing token (}, \\end{x}, \\), \\]) and G a random '
        'soup. Oracle under the read-count termination monitor: tolerant parse raises nothing and '
        'terminates; returns a node list; if the strict parse of the same input succeeds the two '
        'canonical dumps (positions, fields, parsing-state fields) are equal; for composites the '
        'first len(strict(D)) top-level nodes equal strict(D); (d) D + opener + D2 + opener2 + D3 '
        'with nothing closed: every chars node of strict(D2) precedes the strict error position '
        'and must be in the tolerant tree; (e) thorough: atheris campaigns running oracle (a). '
        '(f) generically, in four contexts: the top-level nodes (but the last two) of the longest '
        'strictly parsable token prefix open the tolerant result unchanged. '
        'Non-trivial = input that does not '
        'parse strictly (recovery taken) or whose tree has >= 3 node kinds; distinct by string.')
ASSUMPTIONS = [
    'termination is decided by a bound of 200*(n+8) token-reader primitive calls',
    'D ends in a closed group so that its last node cannot merge with what follows',
]
NSHARDS = 16
ALPHA_EVERY = SIG_SMALL + EVERYTYPE_TOKENS
ALPHAS = {'SIG': SIG, 'EVERY': ALPHA_EVERY, 'SMALL': SIG_SMALL, 'EXTRA': EXTRA_TOKENS,
          'OPTIONS': OPTIONS_TOKENS, 'LEGACY': LEGACY}
STRAY = ['}', '\\end{x}', '\\)', '\\]', '\\end{itemize}']
OPENERS = ['', '', '\\begin{x}', '\\begin{itemize}', '\\textbf{', '$', '\\[', '{']

_CTX = {}


def ctx(name):
    if name not in _CTX:
        _CTX[name] = contexts.build(name)
    return _CTX[name]


def plan(tier, seed):
    if tier == 'quick':
        L, LE, nrand, ndocs, ncomp = 3, 3, 3200, 1600, 2400
    else:
        L, LE, nrand, ndocs, ncomp = 4, 4, 80000, 40000, 50000
    shards = [('soup', 'default', 'SIG', L, k) for k in range(NSHARDS)]
    shards += [('soup', 'every', 'EVERY', LE, k) for k in range(NSHARDS)]
    shards += [('soup', 'extra', 'EXTRA', 3 if tier == 'quick' else 4, k) for k in range(NSHARDS)]
    shards += [('soup', 'options', 'OPTIONS', 3 if tier == 'quick' else 4, k) for k in range(NSHARDS)]
    shards += [('soup', 'default', 'LEGACY', 3 if tier == 'quick' else 4, k) for k in range(NSHARDS)]
    shards += [('soup', 'every-nounknown', 'EVERY', 2 if tier == 'quick' else 3, k)
               for k in range(NSHARDS)]
    shards += [('vsoup', 2 if tier == 'quick' else 3, k) for k in range(NSHARDS)]
    shards += [('prefixerr', c, k) for c in sorted(PREFIX_ITEMS) for k in range(NSHARDS)]
    shards += [('pathological',)]
    shards += [('rand', nrand // NSHARDS, seed * 1000 + k) for k in range(NSHARDS)]
    shards += [('docs', ndocs // NSHARDS, seed * 1000 + 100 + k) for k in range(NSHARDS)]
    shards += [('comp', ncomp // NSHARDS, seed * 1000 + 200 + k) for k in range(NSHARDS)]
    if tier != 'quick':
        shards += [('fuzz', FUZZ_RUNS, seed * 100 + k + 1) for k in range(NSHARDS)]
    return {'shards': shards,
            'bounds': {'soup_len_default': L, 'soup_len_everytype': LE, 'random_soups': nrand,
                       'random_soup_max_tokens': 40, 'documents': ndocs, 'composites': ncomp},
            'required_classes': ['strict-ok', 'recovery', 'comp:prefix-checked',
                                 'comp:nested-opener', 'stray:}', 'stray:\\end{x}',
                                 'stray:\\)', 'stray:\\]', 'unclosed:checked',
                                 'inner-document:checked', 'variants', 'prefix-kept-check',
                                 'prefix-errors:default', 'prefix-errors:options',
                                 'pathological-lengths']}


def tolerant(s, ctxname):
    """('ok', nodelist) | ('exc', e) | ('nonterm', e)"""
    try:
        w, nl = px.parse(s, ctx(ctxname), tolerant=True)
        return 'ok', nl
    except monitor.NonTermination as e:
        return 'nonterm', e
    except Exception as e:
        return 'exc', e


def strict(s, ctxname):
    PE = px.parse_error_class()
    try:
        w, nl = px.parse(s, ctx(ctxname), tolerant=False)
        return 'ok', nl
    except PE as e:
        return 'err', e
    except monitor.NonTermination as e:
        return 'other', e
    except Exception as e:
        return 'other', e


def variant_parse(s, variant):
    """tolerant parses through other public routes: a parsing state without a context database,
    a user-supplied (non-tolerant) token reader with a tolerant walker, the expression parser"""
    from pylatexenc.latexwalker import LatexWalker
    from pylatexenc.latexnodes import ParsingState, LatexTokenReader
    from pylatexenc.latexnodes import parsers as P
    w = LatexWalker(s, latex_context=ctx('default'), tolerant_parsing=True)
    with monitor.budget(len(s)):
        if variant == 'no-context':
            ps = ParsingState(s=s, latex_context=None)
            return w.parse_content(P.LatexGeneralNodesParser(), parsing_state=ps)[0]
        if variant == 'own-reader':
            return w.parse_content(P.LatexGeneralNodesParser(), token_reader=LatexTokenReader(s))[0]
        if variant == 'own-reader:expression':
            return w.parse_content(P.LatexExpressionParser(), token_reader=LatexTokenReader(s))[0]
        if variant == 'expression':
            return w.parse_content(P.LatexExpressionParser())[0]
        if variant == 'forbidden-characters':
            ps = w.make_parsing_state(forbidden_characters='a$')
            return w.parse_content(P.LatexGeneralNodesParser(), parsing_state=ps)[0]
    raise ValueError(variant)


VARIANTS = ['no-context', 'own-reader', 'own-reader:expression', 'expression',
            'forbidden-characters']


def check_variants(s, res, case):
    from pylatexenc.latexnodes import LatexWalkerTokenParseError
    for v in VARIANTS:
        res.case()
        try:
            variant_parse(s, v)
        except LatexWalkerTokenParseError as e:
            if v.startswith('own-reader'):
                res.label('own-reader:token-error-propagated')     # the reader is not tolerant
            else:
                res.fail(exc_key(e), exc_detail(e) + ' (%s) on %r' % (v, s), dict(case, variant=v))
        except monitor.NonTermination as e:
            res.fail(monitor.nonterm_key(e), 'tolerant parse (%s) does not terminate' % v,
                     dict(case, variant=v))
        except Exception as e:
            res.fail(exc_key(e), exc_detail(e) + ' (%s) on %r' % (v, s), dict(case, variant=v))
    res.label('variants')


def check_source(s, ctxname, res, case, count_nontriv=True):
    res.case()
    tk, tv = tolerant(s, ctxname)
    if tk == 'exc':
        res.fail(exc_key(tv), exc_detail(tv), case)
        return None
    if tk == 'nonterm':
        res.fail(monitor.nonterm_key(tv), 'tolerant parse does not terminate', case)
        return None
    sk, sv = strict(s, ctxname)
    if tv is None:
        res.fail('c06:none-result:' + ('strict-ok' if sk == 'ok' else 'after-error'),
                 'tolerant parse returned None', case)
        return None
    if sk == 'ok':
        res.label('strict-ok')
        a = dump(tv)
        b = dump(sv)
        if a != b:
            res.fail('c06:differs-from-strict', 'tolerant and strict trees differ: %r vs %r'
                     % (str(a)[:300], str(b)[:300]), case)
        if count_nontriv and len(kinds_present(tv)) >= 3:
            res.nontriv(s)
    elif sk == 'err':
        res.label('recovery', case)
        p = getattr(sv, 'pos', None)
        if isinstance(p, int) and len(s):
            where = 'first' if p <= 0 else ('last' if p >= len(s.rstrip()) - 1 else 'middle')
            res.label('error-at:' + where)
        what = (getattr(sv, 'error_type_info', None) or {}).get('what', '?')
        res.label('recovery-what:' + str(what), case)
        toks = case.get('tokens')
        if toks and len(toks) >= 2:
            # pre-error content, generically: the longest prefix (at the generator's token
            # boundaries) that parses strictly has been read completely before anything goes
            # wrong; its top-level nodes except the last two open the tolerant result unchanged
            # (the last node may still grow, and where the one before it ends may have been
            # decided by looking at the first -- possibly still growing -- token of the last)
            for k in range(len(toks) - 1, 0, -1):
                pk, pre = strict(''.join(toks[:k]), ctxname)
                if pk == 'ok':
                    if pre is not None and len(pre) >= 3:
                        want = [dump(n) for n in list(pre)[:-2]]
                        got = [dump(n) for n in list(tv)[:len(want)]]
                        res.label('prefix-kept-check')
                        if got != want:
                            res.fail('c06:valid-prefix-not-kept', 'the prefix %r parses strictly to %d '
                                     'top-level nodes; the tolerant result of %r does not start with '
                                     'the first %d of them: %s vs %s'
                                     % (''.join(toks[:k]), len(pre), s, len(want), str(got)[:200],
                                        str(want)[:200]), case)
                    break
        if count_nontriv:
            res.nontriv(s)
    return tv


def check_composite(comp, res):
    ctxname = comp['ctx']
    D, opener, D2, T, G = comp['D'], comp['opener'], comp['D2'], comp['T'], comp['G']
    W = comp.get('W', '')
    if not opener:
        D = D + W           # whitespace before the stray token is content that precedes the error
    else:
        D2 = D2 + W
    op2, D3 = comp.get('op2', ''), comp.get('D3', '')
    s = D + opener + D2 + op2 + D3 + T + G
    case = dict(comp, kind='comp')
    tv = check_source(s, ctxname, res, case)
    if tv is None:
        return
    if op2:
        check_unclosed(comp, s, tv, res, case)
    elif opener in TEXT_OPENERS and D2:
        # the well-formed document inside the still-open construct also precedes the error
        check_unclosed(comp, s, tv, res, case, what='inside-open-construct-before-stray-token')
    sk, sv = strict(D, ctxname)
    if sk != 'ok':
        res.label('comp:base-not-accepted')
        return
    res.label('comp:prefix-checked')
    if T:
        res.label('stray:' + T)
    if opener:
        res.label('comp:nested-opener', case)
    want = dump(sv)['nodes']
    got = dump(tv)
    got_nodes = got['nodes'] if got and got.get('k') == 'list' else None
    last_ok = True
    if W and not opener and want and want[-1].get('k') == 'chars':
        # the blanks written before the stray token form the last node of the prefix; a
        # recovery that keeps the stray token as text may merge it into that node: the blanks
        # must still be there, at the start of a chars node at the same position
        last = want[-1]
        want = want[:-1]
        g = got_nodes[len(want)] if got_nodes is not None and len(got_nodes) > len(want) else None
        last_ok = bool(g) and g.get('k') == 'chars' and g.get('pos') == last.get('pos') \
            and str(g.get('chars', '')).startswith(str(last.get('chars', '')))
    if got_nodes is None or got_nodes[:len(want)] != want or not last_ok:
        res.fail('c06:prefix-lost:' + ('nested' if opener else 'top') + ':' + T,
                 'nodes of the well-formed prefix %r are not the first nodes of the tolerant '
                 'result for %r: got %r' % (D, s, str(got_nodes)[:300]), case)


# openers after which a following document reads exactly as it does on its own (text mode, no
# argument still expected: \begin{itemize} is not one of them, it takes an optional [..])
TEXT_OPENERS = ['\\begin{x}', '\\textbf{', '{']


def chars_nodes(nl, shift=0):
    from ..treedump import walk, kind
    return set((n.pos + shift, n.pos_end + shift, n.chars) for n in walk(nl) if kind(n) == 'chars'
               and n.pos is not None)


def check_unclosed(comp, s, tv, res, case, what='unclosed-at-end-of-input'):
    """D + opener + D2 + op2 + D3 with nothing closed at the end of input: the first syntax error
    (strict mode) lies inside op2's contents, so everything D2 contains precedes it and must be
    in the tolerant result: each chars node of strict(D2), shifted, is a chars node of it."""
    # (the blanks W written after D2 are left out: they may merge with what follows)
    ctxname, D, opener, D2 = comp['ctx'], comp['D'], comp['opener'], comp['D2']
    sk, sv = strict(s, ctxname)
    if sk != 'err':
        res.label('unclosed:strict-accepts')
        return
    k2, v2 = strict(D2, ctxname)
    if k2 != 'ok':
        return
    res.label('unclosed:checked' if what.startswith('unclosed') else 'inner-document:checked', case)
    want = chars_nodes(v2, len(D + opener))
    got = chars_nodes(tv)
    missing = sorted(want - got)
    if missing:
        res.fail('c06:content-before-error-lost:' + what,
                 'the chars node(s) %r of the well-formed document %r, which precedes the point '
                 'where the input goes wrong, are not in the tolerant result for %r'
                 % (missing[:3], D2, s), case)


def composite_strategy():
    soup = soups.soup_strategy(SIG, 0, 8).map(''.join)
    doc = docgrammar.document_strategy(('default',), depth=2, max_size=3)

    @st.composite
    def comp(draw):
        _, ast = draw(doc)
        D = docgrammar.render(ast) + '{x}'
        opener = draw(st.sampled_from(OPENERS))
        D2 = ''
        if opener:
            _, ast2 = draw(doc)
            D2 = docgrammar.render(ast2) + '{y}'
        W = draw(st.sampled_from(['', '', ' ', '\n', '  ']))
        if draw(st.integers(0, 3)) == 0:
            # nothing is closed: two nested unclosed constructs at the end of input
            opener = draw(st.sampled_from(TEXT_OPENERS))
            _, ast2 = draw(doc)
            _, ast3 = draw(doc)
            return {'ctx': 'default', 'D': D, 'opener': opener,
                    'D2': docgrammar.render(ast2) + '{y}', 'W': W,
                    'op2': draw(st.sampled_from(OPENERS[2:])), 'D3': docgrammar.render(ast3),
                    'T': '', 'G': ''}
        return {'ctx': 'default', 'D': D, 'opener': opener, 'D2': D2, 'W': W,
                'T': draw(st.sampled_from(STRAY)), 'G': draw(soup)}
    return comp()


# complete constructs per context (anything that does not parse strictly just yields no check),
# things that break a document, and what may follow
PREFIX_ITEMS = {
    'default': ['a', ' ', '{b}', '$x$', '\\alpha', '\\textbf{c}', '\\\\', '~', '%c\n',
                '\\begin{x}d\\end{x}', '\\sqrt[3]{e}', '\\item', '\n\n', '\\verb|v|', '\\[y\\]'],
    'every': ['a', '\\mstar*', '\\mopt[o]', '\\mmand{m}', '\\mm b', '\\mo[o]', '\\ms*', '\\mt+',
              '\\mr<r>', '\\md<d>', '\\mv|v|', '\\mvb{v}', '\\mcombo*[o]{m}', '\\mmath{x}',
              '\\mtext{t}', '\\begin{eenv}[o]{m}b\\end{eenv}', '+', '\\me^{u}', '\\many(a)', ' '],
    'extra': ['\\mcomma{a,b}', '\\mchars{c}', '\\mtack\\ta{x}', '\\mempty', '\\me_a', '\\msn x',
              '\\begin{vcode}v\\end{vcode}', '\\many[b]', 'a', '{g}', ' ', '\\mcommak{k=v,w}'],
    'options': ['\\ofull{a}', '\\onosp{a}', '\\oonosp[o]{a}', '\\omark+{a}', '\\omarkb++{c}',
                '\\omarkg+{d}', '\\osn e', '\\orr(a)', '\\odd(a)', '\\ott!', '\\oee_a',
                '\\oom{a}[b]', '\\olegacy*[a]{b}', '\\olegns[a]{b}',
                '\\begin{oenv}*(a){b}c\\end{oenv}', '\\osns{x}*', '\\;*', 'a', ' '],
}
# pylatexenc-2 parser objects with a star after a first argument / a control symbol / an environment
PREFIX_ITEMS['options'] += ['\\olegst{a}*{b}', '\\,*[2pt]', '\\begin{olegenv}*{x}y\\end{olegenv}']
PREFIX_BREAKERS = ['}', '\\end{x}', '\\)', '\\]', '{', '$', '\\begin{x}', '\\textbf', '\\verb|', ']']
PREFIX_TAILS = ['', 'z', ' {y}']


def run_prefix_errors(ctxname, k, res):
    import zlib
    items = PREFIX_ITEMS[ctxname]
    i = 0
    for w in itertools.product(items, repeat=3):
        for b in PREFIX_BREAKERS:
            i += 1
            if i % NSHARDS != k:
                continue
            t = PREFIX_TAILS[zlib.crc32((''.join(w) + b).encode('utf-8')) % len(PREFIX_TAILS)]
            toks = list(w) + [b] + ([t] if t else [])
            check_source(''.join(toks), ctxname, res,
                         {'kind': 'soup', 'ctx': ctxname, 'tokens': toks}, count_nontriv=False)
    res.label('prefix-errors:' + ctxname)


PATHOLOGICAL = [('\\begin{' + 'a' * n + t) for n in (30, 64) for t in ('', '$x$', '\n', '%', '_', ' b}', '\\')] + \
               [('\\end{' + 'ab*' * 12 + t) for t in ('', '$', '\n}')] + \
               ['{' * 60, '$' * 61, '\\' * 61 + 'a', 'a ' * 1500, '[' * 80 + ']' * 80, '%' * 200 + '\n' * 40,
                '\\begin{x}' * 30, '\\textbf' * 60, '~' * 300, '-' * 301, '\\verb' + '|' * 51]
WALL_LIMIT_S = 90


def _parse_in_child(s):
    """tolerant and strict parse of s in this (child) process; the exit code is irrelevant"""
    try:
        tolerant(s, 'default')
        strict(s, 'default')
    except BaseException:
        pass
    os._exit(0)


def run_pathological(res, only=None):
    """inputs that are long in one dimension (an unclosed environment name of 30 / 64 characters,
    hundreds of identical tokens).  Each is first parsed in a forked child that is killed after
    WALL_LIMIT_S seconds -- work done inside the regular-expression engine is invisible to the work
    budget and cannot be interrupted in-process; these inputs take milliseconds, so the limit is
    four to five orders of magnitude of slack -- and, once known to end, checked in-process"""
    import multiprocessing
    mp = multiprocessing.get_context('fork')
    for s in (only if only is not None else PATHOLOGICAL):
        case = {'kind': 'pathological', 'ctx': 'default', 'src': s}
        child = mp.Process(target=_parse_in_child, args=(s,))
        child.start()
        child.join(WALL_LIMIT_S)
        if child.is_alive():
            child.kill()
            child.join()
            res.case()
            res.fail('nontermination:wall-clock:tolerant-or-strict-parse',
                     'parsing %r (length %d) did not finish within %d s'
                     % (s[:40] + '...', len(s), WALL_LIMIT_S), case)
            break
        check_source(s, 'default', res, case, count_nontriv=False)
        res.nontriv(s)
    res.label('pathological-lengths')


def run_shard(shard, res):
    kind = shard[0]
    if kind == 'soup':
        _, ctxname, alpha, L, k = shard
        for toks in soups.enum_tokens(ALPHAS[alpha], L, k, NSHARDS):
            check_source(''.join(toks), ctxname, res,
                         {'kind': 'soup', 'ctx': ctxname, 'tokens': list(toks)})
        res.exhaustive = True
    elif kind == 'prefixerr':
        run_prefix_errors(shard[1], shard[2], res)
    elif kind == 'pathological':
        run_pathological(res)
    elif kind == 'vsoup':
        _, L, k = shard
        for toks in soups.enum_tokens(SIG, L, k, NSHARDS):
            check_variants(''.join(toks), res, {'kind': 'variant', 'tokens': list(toks)})
        res.exhaustive = True
    elif kind == 'rand':
        _, n, seed = shard

        # random long soups, a quarter of the shards each under the default, every-type, extra
        # and options contexts (each over its own alphabet)
        ctxname, alpha = [('default', 'SIG'), ('every', 'EVERY'), ('extra', 'EXTRA'),
                          ('options', 'OPTIONS')][seed % 4]

        def one(toks):
            check_source(''.join(toks), ctxname, res,
                         {'kind': 'soup', 'ctx': ctxname, 'tokens': list(toks)})
        hyp_run(soups.soup_strategy(ALPHAS[alpha], 4, 40 if ctxname == 'default' else 12), one, n,
                seed)
    elif kind == 'docs':
        _, n, seed = shard

        def one(doc):
            signame, src = doc
            check_source(src, docgrammar.CTX_OF[signame], res,
                         {'kind': 'src', 'ctx': docgrammar.CTX_OF[signame], 'src': src})
        hyp_run(docgrammar.source_strategy(), one, n, seed)
    elif kind == 'fuzz':
        from .. import fuzz
        fuzz.campaign(ID, shard[1], shard[2], res)
    elif kind == 'comp':
        _, n, seed = shard
        hyp_run(composite_strategy(), lambda c: check_composite(c, res), n, seed)


FUZZ_RUNS = 30000


def fuzz_case(s, i):
    return {'kind': 'src', 'ctx': ('default', 'extra', 'every')[i % 3], 'src': s}


def check_case(case, res):
    if case['kind'] == 'pathological':
        run_pathological(res, only=[case['src']])
        return
    if case['kind'] == 'variant':
        v = case.get('variant')
        s = ''.join(case['tokens'])
        if v is None:
            check_variants(s, res, case)
            return
        res.case()
        from pylatexenc.latexnodes import LatexWalkerTokenParseError
        try:
            variant_parse(s, v)
        except monitor.NonTermination as e:
            res.fail(monitor.nonterm_key(e), 'tolerant parse (%s) does not terminate' % v, case)
        except LatexWalkerTokenParseError as e:
            if not v.startswith('own-reader'):
                res.fail(exc_key(e), exc_detail(e) + ' (%s) on %r' % (v, s), case)
        except Exception as e:
            res.fail(exc_key(e), exc_detail(e) + ' (%s) on %r' % (v, s), case)
        return
    if case['kind'] == 'soup':
        check_source(''.join(case['tokens']), case['ctx'], res, case)
    elif case['kind'] == 'src':
        check_source(case['src'], case['ctx'], res, case)
    else:
        check_composite(case, res)


def minimise(case, key):
    def holds(c):
        r = Result()
        check_case(c, r)
        return key in r.failures
    if case['kind'] == 'pathological':
        return case
    if case['kind'] in ('soup', 'variant'):
        return dict(case, tokens=ddmin(case['tokens'], lambda t: holds(dict(case, tokens=list(t)))))
    if case['kind'] == 'src':
        return dict(case, src=''.join(ddmin(list(case['src']),
                                            lambda t: holds(dict(case, src=''.join(t))))))
    c = dict(case)
    for fld in ('G', 'D3', 'D2', 'D'):
        if fld not in c:
            continue
        c[fld] = ''.join(ddmin(list(c[fld]), lambda t, f=fld: holds(dict(c, **{f: ''.join(t)}))))
        if not holds(c):
            c[fld] = case[fld]
    return c
