"""C07 -- latex2text is total: a string for every input and option set."""
import itertools

from .. import soups, monitor, docgrammar
from ..alphabets import SIG, SIG_SMALL, STRUCTURAL
from ..engine import exc_key, exc_detail, ddmin, hyp_run, Result

ID = 'C07'
LEVEL = 'exploration'
RULE = ('(i) bounded-exhaustive token soups; (ii) every macro and environment name of the default '
        'walker and latex2text databases (read from the tree at run time) in every template of a '
        'call-shape catalogue (bare, all arguments present / empty, starred, followed by text / '
        'paragraph break / closing brace / comment-then-argument, as single-token argument of '
        '\\hat \\textbf \\frac \\sqrt[..], in inline math; environments with empty body, table-like '
        'body, with arguments, unterminated, mismatched \\end, nested in math, as an argument); '
        '(iii) grammar documents; each crossed with option sets over math_mode x '
        'strict_latex_spaces x keep_comments x keep_braced_groups x fill_text (pairwise-covering '
        'in quick, all 240 in thorough). Oracle under the read-count monitor: latex_to_text returns '
        'str, raises nothing, terminates; (iv) thorough: atheris campaigns with the same oracle in '
        'the target. The name sweep varies what arguments contain (digits, punctuation, non-ASCII, accent '
        'macros, blanks, nested groups, scripts, ligatures). '
        'Non-trivial = every (ii)/(iii) case and soups with >= 1 '
        'control sequence; distinct by (source, option set).')
ASSUMPTIONS = ['default tolerant parsing; default latex2text context database']
NSHARDS = 16

MATH_MODES = ['text', 'with-delimiters', 'verbatim', 'remove']
SPACES = [False, 'based-on-source', 'except-in-equations', True, 'macros']
KEEPC = [False, True]
KEEPB = [False, True]
FILL = [None, True, 20]
ALL_OPTS = [dict(math_mode=m, strict_latex_spaces=s, keep_comments=c, keep_braced_groups=b,
                 fill_text=f)
            for m in MATH_MODES for s in SPACES for c in KEEPC for b in KEEPB for f in FILL]


# documented option values outside the five-key grid above (constructor documentation of
# LatexNodes2Text): aliases, None, dictionaries (also nested for equations), the deprecated
# spellings that are "still accepted", small / large fill widths, minimum group length
EXTRA_OPTS = [
    {'strict_latex_spaces': 'default'},
    {'strict_latex_spaces': {'between-macro-and-chars': True}},
    {'strict_latex_spaces': {'after-comment': True, 'between-latex-constructs': True}},
    {'strict_latex_spaces': {'in-equations': {'between-macro-and-chars': True}}},
    {'strict_latex_spaces': {'in-equations': False, 'between-latex-constructs': True}},
    {'strict_latex_spaces': {'in-equations': True}},
    {'keep_inline_math': True}, {'keep_inline_math': False},
    {'keep_braced_groups': True, 'keep_braced_groups_minlen': 0},
    {'keep_braced_groups': True, 'keep_braced_groups_minlen': 3},
    {'fill_text': 1}, {'fill_text': 2}, {'fill_text': 5}, {'fill_text': 200},
    {'text_replacements': []},
    {'math_mode': 'verbatim', 'keep_comments': True, 'fill_text': 3},
    {},
]
# documents for the option-value sweep and the call histories on one converter object
OPT_DOCS = [
    'a \\textbf{b} {c d} $x^2 \\alpha y$ %k\n e\n\n\\[ \\frac{1}{2} \\]',
    '\\begin{itemize}\\item a \\item[b] {c}\\end{itemize} ``q\'\' --- \\&',
    '\\alpha x\\beta{} y {\\it z} \\begin{equation} a %c\n= b \\end{equation}',
    '{\\\'e}tonnant {\\\'etonnant} a  b   c\n d',
    '', ' ', '{', '$', '\\',
]
HISTORIES = [
    ['\\title{T $x$}', '\\maketitle'],
    ['\\title{T}\\author{A \\and B}\\date{\\today}', 'x\\maketitle y'],
    ['\\title', '\\maketitle'], ['\\author{}', '\\date', '\\maketitle'],
    ['\\maketitle', '\\title{a}', '\\maketitle'],
    ['\\title{\\textbf{a}\\\\ b}\\maketitle'], ['\\date{\\today}\\maketitle\\maketitle'],
    ['\\title{a', '\\maketitle'], ['\\author{%\n}', '\\maketitle'],
]


def pairwise_opts():
    """Greedy pairwise-covering subset of ALL_OPTS (deterministic)."""
    keys = ['math_mode', 'strict_latex_spaces', 'keep_comments', 'keep_braced_groups', 'fill_text']
    need = set()
    for a, b in itertools.combinations(keys, 2):
        for o in ALL_OPTS:
            need.add((a, repr(o[a]), b, repr(o[b])))
    chosen = []
    while need:
        best, bestcov = None, -1
        for o in ALL_OPTS:
            cov = sum(1 for a, b in itertools.combinations(keys, 2)
                      if (a, repr(o[a]), b, repr(o[b])) in need)
            if cov > bestcov:
                best, bestcov = o, cov
        chosen.append(best)
        for a, b in itertools.combinations(keys, 2):
            need.discard((a, repr(best[a]), b, repr(best[b])))
    return chosen


_L2T = {}


def l2t(opts):
    from pylatexenc.latex2text import LatexNodes2Text
    k = repr(sorted(opts.items()))
    if k not in _L2T:
        _L2T[k] = LatexNodes2Text(**opts)
    return _L2T[k]


def names():
    """(macros {name: argspec}, environments {name: argspec}) from both default databases."""
    from pylatexenc import latexwalker, latex2text
    from ..treedump import argspec_str
    wdb = latexwalker.get_default_latex_context_db()
    tdb = latex2text.get_default_latex_context_db()
    macros, envs = {}, {}
    for spec in wdb.iter_macro_specs():
        macros[spec.macroname] = [argspec_str(a) for a in (spec.arguments_spec_list or [])]
    for spec in wdb.iter_environment_specs():
        envs[spec.environmentname] = [argspec_str(a) for a in (spec.arguments_spec_list or [])]
    for spec in tdb.iter_macro_specs():
        macros.setdefault(spec.macroname, [])
    for spec in tdb.iter_environment_specs():
        envs.setdefault(spec.environmentname, [])
    macros.pop('', None)
    envs.pop('', None)
    return macros, envs


def _args(argspec, filled):
    out = ''
    for a in argspec:
        if a in ('*', 's'):
            out += '*'
        elif a in ('[', 'o'):
            out += '[x]' if filled else '[]'
        elif a in ('{', 'm'):
            out += '{y}' if filled else '{}'
        else:
            out += '{z}' if filled else '{}'
    return out


ARG_CONTENTS = [('digits', 'A1b 09'), ('punct', 'a,b;c.-!?'), ('nonascii', '\u00e9\u00df\u03b1 \u4e2d'),
                ('accent-macro', "\\'e\\\"{o}"), ('blank', ' '), ('nested-group', '{A{1}}'),
                ('sub-super', 'a_1^{2}'), ('ligatures', "``a''---b--c")]


def macro_templates(name, argspec):
    m = '\\' + name
    sep = ' ' if name[:1].isalpha() else ''
    full = m + _args(argspec, True)
    empty = m + _args(argspec, False)
    nostar = m + _args([a for a in argspec if a not in ('*', 's')], True)
    t = [
        ('bare', m),
        ('bare-then-text', m + sep + 'abc def'),
        ('all-args', 'A ' + full + ' B'),
        ('empty-args', 'A ' + empty + ' B'),
        ('no-star', nostar + 'x'),
        ('generic-3-groups', m + '{x}{y}{z}'),
        ('bracket-then-groups', m + '[o]{x}{y}'),
        ('then-parbreak', m + '\n\nabc'),
        ('then-closing-brace', '{' + m + '}'),
        ('in-group-with-args', '{' + full + '}'),
        ('comment-then-arg', m + '%c\n{x}{y}'),
        ('space-then-arg', m + ' {x} {y}'),
        ('as-arg-of-hat', '\\hat' + m),
        ('as-arg-of-textbf', '\\textbf' + m + sep + 'x'),
        ('as-args-of-frac', '\\frac' + m + m),
        ('in-sqrt', '\\sqrt[' + m + ']{' + m + '}'),
        ('in-math', '$' + full + '$'),
        ('bare-in-math', '$' + m + '$'),
        ('in-display-math', '\\[' + m + sep + 'x\\]'),
        ('at-eof-in-arg', '\\textbf{' + m),
        ('twice', m + m),
        ('in-itemize', '\\begin{itemize}\\item ' + full + '\\end{itemize}'),
        ('nested-self', m + '{' + full + '}'),
        ('math-arg', m + '{$x$}{\\alpha}'),
    ]
    # what an argument may contain: digits, capitals, punctuation, non-ASCII letters, an accent
    # macro, nothing but a blank, a nested group
    for label, content in ARG_CONTENTS:
        t.append(('arg-content:' + label, m + _args(argspec, True).replace('x', content)
                  .replace('y', content).replace('z', content) if argspec else m + '{' + content + '}'))
    return t


def env_templates(name, argspec):
    b, e = '\\begin{%s}' % name, '\\end{%s}' % name
    a = _args(argspec, True)
    t = [
        ('empty-body', b + e),
        ('empty-body-args', b + a + e),
        ('empty-args', b + _args(argspec, False) + e),
        ('text-body', b + a + ' abc ' + e),
        ('table-body', b + a + 'a & b \\\\ c & d\\\\' + e),
        ('items-body', b + a + '\\item x \\item[y] z' + e),
        ('generic-args', b + '[o]{x}{y} body' + e),
        ('unterminated', b + a + ' abc'),
        ('mismatched-end', b + ' a \\end{document} b'),
        ('in-math', '$' + b + a + 'x' + e + '$'),
        ('in-display', '\\[' + b + a + 'x&y' + e + '\\]'),
        ('as-braced-arg', '\\textbf{' + b + a + 'x' + e + '}'),
        ('as-token-arg', '\\textbf' + b + a + 'x' + e),
        ('nested-self', b + a + b + a + 'x' + e + e),
        ('with-comment', b + '%c\n' + a + 'x % d\n' + e),
        ('only-ampersands', b + a + '&&\\\\&' + e),
        ('parbreak-body', b + a + '\n\n' + e),
    ]
    return t


def plan(tier, seed):
    if tier == 'quick':
        L, ndocs, optmode = 2, 640, 'pairwise'
    else:
        L, ndocs, optmode = 3, 8000, 'all'
    shards = [('names', k, optmode) for k in range(NSHARDS)]
    shards += [('soup', L, k, optmode) for k in range(NSHARDS)]
    shards += [('docs', ndocs // NSHARDS, seed * 1000 + k, optmode) for k in range(NSHARDS)]
    shards += [('optvalues', k) for k in range(4)]
    shards += [('inputs',), ('formatters',)]
    shards += [('pairs', k, 1 if tier == 'quick' else 8) for k in range(NSHARDS)]
    if tier != 'quick':
        shards += [('fuzz', FUZZ_RUNS, seed * 100 + k + 1) for k in range(NSHARDS)]
    macros, envs = names()
    return {'shards': shards,
            'bounds': {'macro_names': len(macros), 'environment_names': len(envs),
                       'macro_templates': len(macro_templates('x', [])),
                       'environment_templates': len(env_templates('x', [])),
                       'option_sets': len(pairwise_opts()) if optmode == 'pairwise' else len(ALL_OPTS),
                       'soup_len': L, 'documents': ndocs},
            'required_classes': ['names:macro', 'names:environment', 'soup', 'doc',
                                 'opt:math_mode=remove', 'opt:fill_text=20',
                                 'opt:keep_comments=True', 'optvalues', 'history', 'two-names', 'input-files',
                                 'exported-formatters', 'deep-nesting']}


def convert(src, opts, res, case):
    """one conversion under the monitor; records a failure; returns the text or None"""
    res.case()
    try:
        with monitor.budget(len(src)):
            out = l2t(opts).latex_to_text(src)
    except monitor.NonTermination as e:
        res.fail(monitor.nonterm_key(e), 'latex_to_text does not terminate on %r' % src, case)
        return None
    except Exception as e:
        res.fail(exc_key(e), exc_detail(e) + ' on %r' % src, case)
        return None
    if not isinstance(out, str):
        res.fail('c07:not-a-string', 'latex_to_text returned %r for %r' % (type(out).__name__, src),
                 case)
        return None
    return out


def optsets(mode):
    return pairwise_opts() if mode == 'pairwise' else ALL_OPTS


FUZZ_RUNS = 30000


def fuzz_case(s, i):
    return {'kind': 'src', 'src': s, 'opts': ALL_OPTS[i % len(ALL_OPTS)]}


def convert_new(src, opts, res, case, obj=None):
    """like convert() but with a converter built for this case (construction is part of the
    call) or a given one (histories)"""
    import warnings
    from pylatexenc.latex2text import LatexNodes2Text
    res.case()
    try:
        with warnings.catch_warnings():
            warnings.simplefilter('ignore')
            conv = obj if obj is not None else LatexNodes2Text(**opts)
            with monitor.budget(len(src)):
                out = conv.latex_to_text(src)
    except monitor.NonTermination as e:
        res.fail(monitor.nonterm_key(e), 'latex_to_text does not terminate on %r' % src, case)
        return None
    except Exception as e:
        res.fail(exc_key(e), exc_detail(e) + ' on %r with %r' % (src, opts), case)
        return None
    if not isinstance(out, str):
        res.fail('c07:not-a-string', 'latex_to_text returned %r for %r' % (type(out).__name__, src),
                 case)
    return out


def run_history(hist, opts, res):
    import warnings
    from pylatexenc.latex2text import LatexNodes2Text
    case = {'kind': 'history', 'history': hist, 'opts': opts}
    try:
        with warnings.catch_warnings():
            warnings.simplefilter('ignore')
            conv = LatexNodes2Text(**opts)
    except Exception as e:
        res.fail(exc_key(e), exc_detail(e), case)
        return
    for src in hist:
        convert_new(src, opts, res, case, obj=conv)
    res.nontriv((repr(hist), repr(opts)))
    res.label('history', case)


def two_name_sources(k, per_name):
    """deterministic two-name documents: every known macro name followed by / wrapped around
    pseudo-randomly chosen other names (so that one converter sees several names in one call)"""
    import zlib
    macros, envs = names()
    ms = sorted(macros.items())
    for i, (n, a) in enumerate(ms):
        if i % NSHARDS != k:
            continue
        for j in range(per_name):
            h = zlib.crc32(('%s/%d' % (n, j)).encode())
            n2, a2 = ms[h % len(ms)]
            n3, a3 = ms[(h >> 8) % len(ms)]
            if n in ('verb', 'input', 'include') or n2 in ('verb', 'input', 'include') \
                    or n3 in ('verb', 'input', 'include'):
                continue
            x, y, z = '\\' + n + _args(a, True), '\\' + n2 + _args(a2, True), '\\' + n3 + _args(a3, False)
            yield x + y + ' ' + z
            yield '\\' + n + _args(a, True).replace('{x}', '{' + y + '}', 1) + z


INPUT_DOCS = ['\\input{a}', 'x \\include{b} y', '\\input a', '\\input{}', '\\input', '\\input{a',
              '\\textbf{\\input{a}} $\\input{b}$', '\\input{nested}', '\\input{missing}']
INPUT_FILES = {'a': 'A \\textbf{file} $x$', 'b': 'B %c\n \\begin{itemize}\\item z\\end{itemize}',
               'nested': 'N \\input{a} \\input{b}', 'a.tex': 'A.tex', '': 'EMPTYNAME'}


def run_inputs(res):
    """\\input / \\include resolved (a) by a subclass overriding read_input_file(), the documented
    extension point, without any call to set_tex_input_directory(); (b) from a directory"""
    import os, shutil, tempfile, warnings
    from pylatexenc.latex2text import LatexNodes2Text

    class Sub(LatexNodes2Text):
        def read_input_file(self, fn):
            return INPUT_FILES.get(fn, '')
    d = tempfile.mkdtemp(prefix='pvc07.')
    try:
        for n, c in INPUT_FILES.items():
            if n:
                open(os.path.join(d, n if '.' in n else n + '.tex'), 'w').write(c)
        for o in pairwise_opts()[:8]:
            for how in ('override', 'directory', 'directory-nonstrict'):
                for src in INPUT_DOCS:
                    res.case()
                    case = {'kind': 'input', 'how': how, 'src': src, 'opts': o}
                    try:
                        with warnings.catch_warnings():
                            warnings.simplefilter('ignore')
                            if how == 'override':
                                conv = Sub(**o)
                            else:
                                conv = LatexNodes2Text(**o)
                                conv.set_tex_input_directory(d, strict_input=(how == 'directory'))
                            with monitor.budget(len(src) + 200):
                                out = conv.latex_to_text(src)
                    except monitor.NonTermination as e:
                        res.fail(monitor.nonterm_key(e), 'does not terminate on %r' % src, case)
                        continue
                    except (IOError, OSError) as e:
                        if how != 'override':
                            # file lookup "may generate a warning or raise an error": the
                            # directory modes only demand that nothing else goes wrong
                            res.label('input:file-lookup-raised')
                            continue
                        res.fail(exc_key(e), exc_detail(e) + ' on %r (%s)' % (src, how), case)
                        continue
                    except Exception as e:
                        res.fail(exc_key(e), exc_detail(e) + ' on %r (%s)' % (src, how), case)
                        continue
                    if not isinstance(out, str):
                        res.fail('c07:not-a-string', repr(type(out)), case)
                    if src == '\\input{a}' and 'file' not in out:
                        res.label('input:content-not-included:' + how)
                    res.nontriv((src, how, repr(o)))
        res.label('input-files')
    finally:
        shutil.rmtree(d, ignore_errors=True)


FORMATTER_DOCS = ['\\zzph', 'a \\zzph{x} b', '\\zzphi c', '\\begin{zzphenv} body \\end{zzphenv}',
                  '$\\zzph$', 'a ~ b', '\\begin{zzmat} a & b \\\\ c & d \\end{zzmat}',
                  '\\begin{zzmat}\\end{zzmat}', '\\begin{zzeq} x \\zzph \\end{zzeq}', '\\zzin{a}',
                  '\\zzin', '\\textbf{\\zzph}', '\\begin{zzphenv}', '\\zzsty{Ab1 \\alpha}', '\\zzsty']
FORMATTER_MARKS = {'\\zzph': 'Z Z P H', '\\zzphi c': 'I N L', 'a ~ b': '~',
                   '\\begin{zzphenv} body \\end{zzphenv}': 'Z Z P H E N V'}


def run_formatters(res):
    """the formatter callables the package exports for use in text specs (fmt_placeholder_node,
    placeholder_node_formatter, fmt_equation_environment, fmt_matrix_environment_node,
    fmt_input_macro, fmt_math_text_style), attached to macro, environment and specials specs of a
    custom context: still a string for every input and option set, and the documented placeholder
    text appears"""
    import warnings
    from pylatexenc import latex2text as L, macrospec as M
    from pylatexenc.latexwalker import LatexWalker, get_default_latex_context_db
    wdb0, tdb0 = get_default_latex_context_db(), L.get_default_latex_context_db()
    wdb0.freeze()
    tdb0.freeze()
    wdb = wdb0.extended_with(
        category='c07fmt',
        macros=[M.MacroSpec('zzph', '{'), M.MacroSpec('zzphi', ''), M.MacroSpec('zzin', '{'),
                M.MacroSpec('zzsty', '{')],
        environments=[M.EnvironmentSpec('zzphenv', ''), M.EnvironmentSpec('zzmat', ''),
                      M.EnvironmentSpec('zzeq', '', is_math_mode=True)])
    tdb = tdb0.extended_with(
        category='c07fmt',
        macros=[L.MacroTextSpec('zzph', simplify_repl=L.fmt_placeholder_node),
                L.MacroTextSpec('zzphi', simplify_repl=L.placeholder_node_formatter('inl', block=False)),
                L.MacroTextSpec('zzin', simplify_repl=L.fmt_input_macro),
                L.MacroTextSpec('zzsty', simplify_repl=lambda n, l2tobj: L.fmt_math_text_style(
                    l2tobj.nodelist_to_text(n.nodeargd.argnlist if n.nodeargd else []), 'bold'))],
        environments=[L.EnvironmentTextSpec('zzphenv', simplify_repl=L.fmt_placeholder_node),
                      L.EnvironmentTextSpec('zzmat', simplify_repl=L.fmt_matrix_environment_node),
                      L.EnvironmentTextSpec('zzeq', simplify_repl=L.fmt_equation_environment)],
        specials=[L.SpecialsTextSpec('~', simplify_repl=L.fmt_placeholder_node)])
    for o in pairwise_opts():
        for src in FORMATTER_DOCS:
            for tol in (True, False):
                res.case()
                case = {'kind': 'formatters', 'src': src, 'opts': o, 'tolerant': tol}
                try:
                    with warnings.catch_warnings():
                        warnings.simplefilter('ignore')
                        w = LatexWalker(src, latex_context=wdb, tolerant_parsing=tol)
                        try:
                            nl, _, _ = w.get_latex_nodes()
                        except Exception:
                            if tol:
                                raise
                            res.label('formatters:strict-parse-rejects')
                            continue
                        with monitor.budget(len(src) + 200):
                            out = L.LatexNodes2Text(latex_context=tdb, **o).nodelist_to_text(nl)
                except monitor.NonTermination as e:
                    res.fail(monitor.nonterm_key(e), 'does not terminate on %r' % src, case)
                    continue
                except Exception as e:
                    res.fail(exc_key(e), exc_detail(e) + ' on %r' % src, case)
                    continue
                if not isinstance(out, str):
                    res.fail('c07:not-a-string', repr(type(out)), case)
                    continue
                mark = FORMATTER_MARKS.get(src)
                if mark and o.get('math_mode') != 'remove' and mark.lower() not in out.lower():
                    res.fail('c07:formatter:placeholder-text-missing', '%r -> %r lacks %r'
                             % (src, out, mark), case)
                res.nontriv((src, repr(sorted(o.items())), tol))
    res.label('exported-formatters')


DEEP = [('{', '}'), ('\\textbf{', '}'), ('\\sqrt{', '}'), ('\\frac{a}{', '}'), ('$\\text{', '}$'),
        ('\\begin{itemize}\\item ', '\\end{itemize}'), ('\\emph{\\textit{', '}}'), ('{\\hat{', '}}')]


def run_deep(res):
    """deep nesting: the work (token reads + nodes rendered) stays within the budget that is linear
    in the input, under every option pair"""
    for o, c in DEEP:
        for d in (10, 22):
            src = 'x ' + o * d + 'ab' + c * d + ' y'
            for opts in pairwise_opts():
                out = convert(src, opts, res, {'kind': 'src', 'src': src, 'opts': opts})
                res.nontriv((src, repr(sorted(opts.items()))))
    res.label('deep-nesting')


def run_shard(shard, res):
    kind = shard[0]
    if kind == 'inputs':
        run_inputs(res)
        return
    if kind == 'formatters':
        run_formatters(res)
        run_deep(res)
        return
    if kind == 'optvalues':
        k = shard[1]
        for i, o in enumerate(EXTRA_OPTS):
            if i % 4 != k:
                continue
            res.label('optvalue:' + repr(sorted(o.items()))[:60])
            for src in OPT_DOCS:
                convert_new(src, o, res, {'kind': 'src-new', 'src': src, 'opts': o})
                res.nontriv((src, repr(o)))
            for hist in HISTORIES:
                run_history(hist, o, res)
        res.label('optvalues')
        return
    if kind == 'pairs':
        _, k, per_name = shard
        opts = pairwise_opts()
        for i, src in enumerate(two_name_sources(k, per_name)):
            o = opts[i % len(opts)]
            convert(src, o, res, {'kind': 'src', 'src': src, 'opts': o})
            res.nontriv((src, repr(o)))
        res.label('two-names')
        return
    if kind == 'fuzz':
        from .. import fuzz
        fuzz.campaign(ID, shard[1], shard[2], res)
        return
    if kind == 'names':
        _, k, optmode = shard
        opts = optsets(optmode)
        for o in opts:
            for key, v in o.items():
                res.label('opt:%s=%r' % (key, v) if not isinstance(v, str) else 'opt:%s=%s' % (key, v))
        macros, envs = names()
        items = [('macro', n, a) for n, a in sorted(macros.items())] + \
                [('environment', n, a) for n, a in sorted(envs.items())]
        for i, (what, n, a) in enumerate(items):
            if i % NSHARDS != k:
                continue
            tpl = macro_templates(n, a) if what == 'macro' else env_templates(n, a)
            for tname, src in tpl:
                res.label('names:' + what)
                res.label('template:%s:%s' % (what, tname), {'src': src})
                for o in opts:
                    convert(src, o, res, {'kind': 'src', 'src': src, 'opts': o,
                                          'template': tname, 'name': n})
                    res.nontriv_distinct()
        res.exhaustive = True
    elif kind == 'soup':
        _, L, k, optmode = shard
        opts = optsets('pairwise')
        for toks in soups.enum_tokens(SIG, L, k, NSHARDS):
            src = ''.join(toks)
            res.label('soup')
            nt = any(t.startswith('\\') and len(t) > 1 for t in toks)
            for o in opts:
                convert(src, o, res, {'kind': 'soup', 'tokens': list(toks), 'opts': o})
                if nt:
                    res.nontriv_distinct()
        res.exhaustive = True
    else:
        _, n, seed, optmode = shard
        opts = optsets('pairwise')

        def one(doc):
            _, src = doc
            res.label('doc')
            for o in opts:
                convert(src, o, res, {'kind': 'src', 'src': src, 'opts': o})
                res.nontriv((src, repr(o)))
        hyp_run(docgrammar.source_strategy(('default',), depth=3), one, n, seed)


def check_case(case, res):
    if case['kind'] == 'src-new':
        convert_new(case['src'], case['opts'], res, case)
        return
    if case['kind'] == 'history':
        run_history(case['history'], case['opts'], res)
        return
    if case['kind'] == 'formatters':
        r2 = Result()
        run_formatters(r2)
        for key, l in r2.failures.items():
            for f in l:
                if f['case'].get('src') == case['src']:
                    res.fail(key, f['detail'], case)
        res.case()
        return
    if case['kind'] == 'input':
        r2 = Result()
        run_inputs(r2)
        for key, l in r2.failures.items():
            for f in l:
                if f['case'].get('src') == case['src'] and f['case'].get('how') == case['how']:
                    res.fail(key, f['detail'], case)
        res.case()
        return
    src = case['src'] if case['kind'] == 'src' else ''.join(case['tokens'])
    convert(src, case['opts'], res, case)
    if 'template' not in case and '\\' in src:
        res.nontriv((src, repr(case['opts'])))


def minimise(case, key):
    def holds(c):
        r = Result()
        check_case(c, r)
        return key in r.failures
    if case['kind'] == 'soup':
        return dict(case, tokens=ddmin(case['tokens'], lambda t: holds(dict(case, tokens=list(t)))))
    if case['kind'] == 'history':
        return dict(case, history=ddmin(case['history'],
                                        lambda h: holds(dict(case, history=list(h)))))
    from ..models import minitok
    src = case['src']
    toks = [src[a:b] for _, a, b in minitok.tokens(src)]
    toks = ddmin(toks, lambda t: holds(dict(case, src=''.join(t))))
    return dict(case, src=''.join(toks))
