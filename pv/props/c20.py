"""C20 -- positions map to the right line and column, also in error reports.

Domain: all strings up to a length bound over {a, NL, CR, space}, every
position 0..len, 16 offset settings; plus every strict-mode parse error raised
on an exhaustive family of faulty multi-line documents.
Oracle: counting model (number of NL before pos; offset after the last NL).
"""
from .. import soups
from ..engine import exc_key, exc_detail

ID = 'C20'
LEVEL = 'exploration'
RULE = ('bounded-exhaustive: every string of length <= L over {a, \\n, \\r, space} x every '
        'position 0..len x 16 offset settings (line_number_offset in {default,1,0,10} x '
        'first_line_column_offset in {0,3} x column_offset in {0,2}), compared with a counting '
        'model; plus every LatexWalkerParseError raised by the strict parse of every string '
        'of up to 4 (quick) / 5 (thorough) tokens over {a, NL, {, }, $, \\textbf, \\end{x}} under 3 offset settings. '
        'Error inputs include token-reader and verbatim-parser errors. '
        'Non-trivial = (string, position) pairs where the position is at a newline, directly '
        'after a newline, at end of input, or in the empty string, and located errors on '
        'multi-line input; every pair is enumerated once, so all are distinct.')
ASSUMPTIONS = [
    'line_number_offset is the number given to the first line (constructor doc: default 1)',
    'a carriage return is an ordinary character; only \\n starts a new line (as implemented '
    'and as the line-start table documents)',
]

ALPHA = ['a', '\n', '\r', ' ']
OFFSETS = [(lno, fco, co) for lno in (None, 1, 0, 10) for fco in (0, 3) for co in (0, 2)]
# 'omit' = keyword not passed at all, None = passed as None: both mean the documented default
OFFSETS += [(None, 'omit', 'omit'), (None, None, None), (10, 'omit', 2), (0, 3, 'omit')]
# (the last four make errors that are raised by the token reader itself or by the verbatim
# parsers -- constructed with the source string at hand -- rather than by the nodes collector)
ERR_ALPHA = ['a', '\n', '{', '}', '$', '\\textbf', '\\end{x}', '\\', '\\begin', '\\verb|',
             '\\begin{verbatim}']
ERR_OFFSETS = [(None, 0, 0), (10, 3, 2), (0, 0, 5)]
NSHARDS = 16


def _kw(lno, fco, co, walker):
    kw = {}
    if lno is not None or walker:
        if lno != 'omit':
            kw['line_number_offset'] = lno
    if fco != 'omit':
        kw['first_line_column_offset'] = fco
    if co != 'omit':
        kw['column_offset'] = co
    return kw


def model(s, pos, lno, fco, co):
    fco = 0 if fco in (None, 'omit') else fco
    co = 0 if co in (None, 'omit') else co
    first = 1 if lno is None else lno
    idx = s.count('\n', 0, pos)
    start = s.rfind('\n', 0, pos) + 1
    return first + idx, pos - start + (fco if idx == 0 else co)


def plan(tier, seed):
    L = 7 if tier == 'quick' else 9
    EL = 4 if tier == 'quick' else 5
    shards = [('pos', L, k) for k in range(NSHARDS)] + [('err', EL, k) for k in range(NSHARDS)]
    return {'shards': shards,
            'bounds': {'max_len': L, 'alphabet': ALPHA, 'offset_sets': len(OFFSETS),
                       'error_soup_tokens': EL, 'error_alphabet': ERR_ALPHA},
            'required_classes': ['pos:at-newline', 'pos:eof', 'pos:empty-string',
                                 'pos:after-newline', 'err:multi-line',
                                 'err-entry:parse_content:delimited-group',
                                 'err-entry:parse_content:general']}


def posclass(s, pos):
    if s == '':
        return 'empty-string'
    if pos == len(s):
        return 'eof'
    if s[pos] == '\n':
        return 'at-newline'
    if pos > 0 and s[pos - 1] == '\n':
        return 'after-newline'
    return 'mid'


def _ints_after_at(text):
    """the first two integers after the '@' of a location report, whatever the wording"""
    import re
    m = re.search(r'@\D*(\d+)\D+?(\d+)', text)
    return (int(m.group(1)), int(m.group(2))) if m else None


def check_positions(s, res, positions=None, offsets=None):
    try:
        from pylatexenc._util import LineNumbersCalculator
    except Exception:       # a private helper: tested when present, the walker API always
        LineNumbersCalculator = None
    from pylatexenc.latexwalker import LatexWalker
    for off in (offsets or OFFSETS):
        lno, fco, co = off
        try:
            ckw = _kw(lno, fco, co, False)
            if ckw.get('first_line_column_offset', 0) is None or ckw.get('column_offset', 0) is None:
                ckw = {}       # the calculator itself documents integers only; None is walker API
            calc = LineNumbersCalculator(s, **ckw) if LineNumbersCalculator is not None else None
            w = LatexWalker(s, **_kw(lno, fco, co, True))
        except Exception as e:
            res.fail(exc_key(e), exc_detail(e), {'kind': 'pos', 's': s, 'pos': 0, 'off': list(off)})
            continue
        for pos in (positions if positions is not None else range(len(s) + 1)):
            res.case()
            case = {'kind': 'pos', 's': s, 'pos': pos, 'off': list(off)}
            pc = posclass(s, pos)
            try:
                exp = model(s, pos, lno, fco, co)
                gw = w.pos_to_lineno_colno(pos)
                got = calc.pos_to_lineno_colno(pos) if calc is not None else gw
                gd = calc.pos_to_lineno_colno(pos, as_dict=True) if calc is not None else \
                    {'lineno': gw[0], 'colno': gw[1]}
                gwd = w.pos_to_lineno_colno(pos, as_dict=True)
                fmt = w.format_pos(pos)
            except Exception as e:
                res.fail(exc_key(e), exc_detail(e), case)
                continue
            if tuple(got) != exp:
                which = 'lineno' if got[0] != exp[0] else 'colno'
                res.fail('c20:%s:%s' % (which, pc),
                         'LineNumbersCalculator says %r, counting model says %r' % (got, exp), case)
            if (gd.get('lineno'), gd.get('colno')) != (got[0], got[1]):
                res.fail('c20:as_dict:%s' % pc, 'as_dict=%r tuple=%r' % (gd, got), case)
            if tuple(gw) != exp or (gwd.get('lineno'), gwd.get('colno')) != exp:
                res.fail('c20:walker:%s' % pc,
                         'LatexWalker.pos_to_lineno_colno says %r/%r, model %r' % (gw, gwd, exp),
                         case)


            if _ints_after_at(fmt) != exp:
                res.fail('c20:walker-format_pos:%s' % pc,
                         'LatexWalker.format_pos(%d) = %r, model %r' % (pos, fmt, exp), case)


def entry_points(s):
    """(name, start position, callable(walker)) -- the ways a strict parse can be started; each may
    raise a parse error whose location is filled in by a different code path"""
    from pylatexenc.latexnodes import parsers as P
    eps = [('parse_content:general', 0, lambda w: w.parse_content(P.LatexGeneralNodesParser()))]
    for p in sorted(set([0, 1, s.find('\n') + 1 if '\n' in s else 0, max(0, len(s) - 1)])):
        if p > len(s):
            continue
        eps += [
            ('get_latex_nodes', p, lambda w, p=p: w.get_latex_nodes(pos=p)),
            ('get_latex_expression', p, lambda w, p=p: w.get_latex_expression(p)),
            ('get_latex_maybe_optional_arg', p, lambda w, p=p: w.get_latex_maybe_optional_arg(p)),
            ('get_latex_braced_group', p, lambda w, p=p: w.get_latex_braced_group(p)),
            ('get_latex_environment', p, lambda w, p=p: w.get_latex_environment(p)),
            ('parse_content:delimited-group', p, lambda w, p=p: w.parse_content(
                P.LatexDelimitedGroupParser(delimiters=('{', '}')),
                token_reader=w.make_token_reader(pos=p))),
            ('parse_content:expression', p, lambda w, p=p: w.parse_content(
                P.LatexExpressionParser(), token_reader=w.make_token_reader(pos=p))),
            ('parse_content:math', p, lambda w, p=p: w.parse_content(
                P.LatexMathParser(math_mode_delimiters='$'),
                token_reader=w.make_token_reader(pos=p))),
        ]
    return eps


def check_error(s, off, res):
    from pylatexenc.latexwalker import LatexWalker, LatexWalkerParseError
    lno, fco, co = off
    for name, start, fn in entry_points(s):
        res.case()
        case = {'kind': 'err', 's': s, 'off': list(off), 'entry': name, 'start': start}
        w = LatexWalker(s, tolerant_parsing=False, **_kw(lno, fco, co, True))
        try:
            import warnings
            with warnings.catch_warnings():
                warnings.simplefilter('ignore')
                fn(w)
            continue
        except LatexWalkerParseError as e:
            err = e
        except Exception:
            continue    # foreign exception types are C05's / C16's business, not C20's
        pos = getattr(err, 'pos', None)
        if not isinstance(pos, int) or not (0 <= pos <= len(s)):
            continue    # location range is C05's business
        exp = model(s, pos, lno, fco, co)
        multi = '\n' in s
        res.label('err:multi-line' if multi else 'err:single-line', case if multi else None)
        res.label('err-entry:' + name, case if multi else None)
        res.label('err-type:' + type(err).__name__)
        if multi:
            res.nontriv_distinct()
        if getattr(err, 'lineno', None) is None and getattr(err, 'colno', None) is None:
            res.fail('c20:error-without-linecol:' + name,
                     'error at pos %r carries no line / column' % (pos,), case)
            continue
        if (err.lineno, err.colno) != exp:
            res.fail('c20:error-linecol:' + name, 'error at pos %r reports line %r col %r, model '
                     'says %r' % (pos, err.lineno, err.colno, exp), case)
            continue
        # the report text names the same numbers (whatever its wording)
        first = str(err).split('\n')[0]
        nums = _ints_after_at(first)
        if nums is not None and nums != exp:
            res.fail('c20:error-report-text:' + name,
                     'str(error) = %r names %r, expected %r' % (str(err)[:200], nums, exp), case)
        # the other positions an error report names (still-open constructs)
        for ctx in (getattr(err, 'open_contexts', None) or []):
            try:
                what, cpos, clno, ccol = tuple(ctx)[:4]
            except Exception:
                continue
            if isinstance(cpos, int) and 0 <= cpos <= len(s) and clno is not None:
                res.label('err:open-context-located')
                if (clno, ccol) != model(s, cpos, lno, fco, co):
                    res.fail('c20:open-context-linecol:' + name,
                             'open block %r at pos %r reported at line %r col %r, model %r'
                             % (what, cpos, clno, ccol, model(s, cpos, lno, fco, co)), case)
        # the walker's own mapping after the parse (cached calculator)
        try:
            after = tuple(w.pos_to_lineno_colno(pos))
        except Exception as e:
            res.fail(exc_key(e), exc_detail(e), case)
            continue
        if after != exp:
            res.fail('c20:walker-after-parse', 'pos_to_lineno_colno(%d) after the parse = %r, '
                     'model %r' % (pos, after, exp), case)


def _old_check_error(s, off, res):
    from pylatexenc.latexwalker import LatexWalker, LatexWalkerParseError
    from pylatexenc.latexnodes.parsers import LatexGeneralNodesParser
    lno, fco, co = off
    res.case()
    case = {'kind': 'err', 's': s, 'off': list(off)}
    w = LatexWalker(s, tolerant_parsing=False, line_number_offset=lno,
                    first_line_column_offset=fco, column_offset=co)
    try:
        w.parse_content(LatexGeneralNodesParser())
        return
    except LatexWalkerParseError as e:
        err = e
    except Exception:
        return      # foreign exception types are C05's business, not C20's
    pos = getattr(err, 'pos', None)
    if pos is None or not (0 <= pos <= len(s)):
        return      # location range is C05's business
    exp = model(s, pos, lno, fco, co)
    multi = '\n' in s
    res.label('err:multi-line' if multi else 'err:single-line', case if multi else None)
    if multi:
        res.nontriv_distinct()
    if (err.lineno, err.colno) != exp:
        res.fail('c20:error-linecol', 'error at pos %r reports line %r col %r, model says %r'
                 % (pos, err.lineno, err.colno, exp), case)


def run_shard(shard, res):
    kind, L, k = shard
    if kind == 'pos':
        for s in soups.enum_strings(ALPHA, L, k, NSHARDS):
            check_positions(s, res)
            for pos in range(len(s) + 1):
                pc = posclass(s, pos)
                if pc != 'mid':
                    res.nontriv_distinct()
                res.label('pos:' + pc, {'s': s, 'pos': pos} if len(s) >= 3 or s == '' else None)
        res.exhaustive = True
    else:
        for s in soups.enum_strings(ERR_ALPHA, L, k, NSHARDS):
            for off in ERR_OFFSETS:
                check_error(s, off, res)
        res.exhaustive = True


def check_case(case, res):
    if case['kind'] == 'pos':
        check_positions(case['s'], res, positions=[case['pos']], offsets=[tuple(case['off'])])
    else:
        check_error(case['s'], tuple(case['off']), res)    # all entry points
