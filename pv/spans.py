"""Span / tiling invariant checker (DESIGN 4.2).  Plain integer arithmetic on
``pos``/``pos_end`` and slices of the source; own child enumeration."""
import re

from .treedump import kind as _kind

_rx_begin = re.compile(r'\\begin\s*\{([^{}]*)\}')
_rx_end = re.compile(r'\\end\s*\{([^{}]*)\}$')


def _items(nl):
    if nl is None:
        return []
    return nl.nodelist if hasattr(nl, 'nodelist') else list(nl)


def check_tiling(nodes, start, end, where, out, src=None):
    """children tile [start, end): no gap, no overlap.  With src given (bodies of groups, math
    and environments) a gap that holds only whitespace is not reported: the statement demands
    tiling of the top level only, and that nothing but blanks may go missing inside a body is
    the reading of 'lossless' used here."""
    def blank(a, b):
        return src is not None and a <= b and not src[a:b].strip()
    cur = start
    for i, n in enumerate(nodes):
        if n is None:
            out.append(('none-node:' + where, 'None entry at index %d' % i))
            continue
        if n.pos is None or n.pos_end is None:
            out.append(('none-pos:' + where, 'node %d (%s) has pos=%r pos_end=%r'
                        % (i, _kind(n), n.pos, n.pos_end)))
            return
        if n.pos != cur and not (n.pos > cur and blank(cur, n.pos)):
            what = 'gap' if n.pos > cur else 'overlap'
            prev = _kind(nodes[i - 1]) if i else 'start'
            out.append(('%s:%s:after-%s' % (what, where, prev),
                        'node %d (%s) starts at %d, previous ended at %d'
                        % (i, _kind(n), n.pos, cur)))
        cur = n.pos_end
    if cur != end and not (cur < end and blank(cur, end)):
        last = _kind(nodes[-1]) if nodes else 'nothing'
        out.append(('end-%s:%s:after-%s' % ('gap' if cur < end else 'overrun', where, last),
                    'last node ends at %d, expected %d' % (cur, end)))


def check_children_inside(children, lo, hi, where, out):
    """children inside [lo, hi], in document order, not overlapping (gaps allowed)."""
    cur = lo
    for i, n in enumerate(children):
        if n is None:
            continue
        if n.pos is None or n.pos_end is None:
            out.append(('none-pos:' + where, 'child %d (%s) pos=%r pos_end=%r'
                        % (i, _kind(n), n.pos, n.pos_end)))
            continue
        if n.pos < cur:
            out.append(('child-overlap-or-order:' + where,
                        'child %d (%s) starts at %d before %d' % (i, _kind(n), n.pos, cur)))
        if n.pos_end > hi:
            out.append(('child-outside:' + where,
                        'child %d (%s) ends at %d beyond parent end %d'
                        % (i, _kind(n), n.pos_end, hi)))
        if n.pos_end < n.pos:
            out.append(('negative-span:' + where, 'child %d (%s) pos=%d pos_end=%d'
                        % (i, _kind(n), n.pos, n.pos_end)))
        cur = max(cur, n.pos_end)


def _standard_arg_parser(argspec):
    """is this argument read by the general delimited-group / single-token machinery?  Arguments
    of the other parser classes (comma-separated list, embellishments, ...) are wrapped by the
    library in synthetic groups that deliberately leave out separators and skipped blanks, so
    their bodies need not tile (children must still be inside, ordered, non-overlapping)."""
    p = getattr(argspec, 'parser', None)
    return isinstance(p, str) and not p.startswith('e')


def check_node(s, n, out, strict=True, loose=False):
    """Anchoring of one node against the source and recursion into children.
    strict=False: only range/nesting (what tolerant results must satisfy).
    loose=True: n is a synthetic wrapper made by a non-standard argument parser."""
    k = _kind(n)
    if k == 'list':
        nodes = [x for x in _items(n)]
        lo = n.pos if getattr(n, 'pos', None) is not None else 0
        hi = n.pos_end if getattr(n, 'pos_end', None) is not None else len(s)
        if not (0 <= lo <= hi <= len(s)):
            out.append(('out-of-range:list', 'node list pos=%r pos_end=%r len=%d' % (lo, hi, len(s))))
            lo, hi = 0, len(s)
        check_children_inside(nodes, lo, hi, 'list', out)
        for x in nodes:
            if x is not None:
                check_node(s, x, out, strict, loose)
        return
    if k.startswith('other:'):
        out.append(('foreign-object', 'object of type %s in tree' % k[6:]))
        return
    pos, pe = n.pos, n.pos_end
    if pos is None or pe is None:
        if strict:
            out.append(('none-pos:' + k, '%s node pos=%r pos_end=%r' % (k, pos, pe)))
        return
    if not (0 <= pos <= pe <= len(s)):
        out.append(('out-of-range:' + k, '%s node pos=%r pos_end=%r len=%d' % (k, pos, pe, len(s))))
        return
    src = s[pos:pe]
    if strict:
        try:
            lv = n.latex_verbatim()
        except Exception as e:      # noqa
            lv = '<latex_verbatim() raised %r>' % (e,)
        if lv != src:
            out.append(('latex_verbatim:' + k, 'latex_verbatim()=%r slice=%r' % (lv, src)))
    if k == 'chars':
        if strict and n.chars != src:
            out.append(('chars-text', 'chars=%r but source slice [%d:%d]=%r' % (n.chars, pos, pe, src)))
        return
    if k == 'comment':
        if strict:
            # comment start is '%' in every context used here
            exp = '%' + n.comment + (n.comment_post_space or '')
            if src != exp:
                out.append(('comment-text', 'comment+post_space=%r but slice=%r' % (exp, src)))
        return
    if k in ('group', 'math'):
        d = n.delimiters
        body = _items(n.nodelist)
        bl = n.nodelist
        if bl is not None and getattr(bl, 'pos', None) is not None \
                and getattr(bl, 'pos_end', None) is not None \
                and not (pos <= bl.pos <= bl.pos_end <= pe):
            out.append(('list-outside-parent:' + k, 'body list [%r,%r) of %s node [%d,%d)'
                        % (bl.pos, bl.pos_end, k, pos, pe)))
        if strict:
            if not (isinstance(d, (tuple, list)) and len(d) == 2 and d[0] is not None
                    and d[1] is not None):
                out.append(('delimiters:' + k, 'delimiters=%r' % (d,)))
            elif not (src.startswith(d[0]) and src.endswith(d[1])
                      and len(src) >= len(d[0]) + len(d[1])):
                out.append(('anchor:' + k, 'slice %r does not start/end with delimiters %r'
                            % (src, d)))
            elif not loose:
                check_tiling(body, pos + len(d[0]), pe - len(d[1]), k + '-body', out, src=s)
        check_children_inside(body, pos, pe, k, out)
        for x in body:
            if x is not None:
                check_node(s, x, out, strict)
        return
    # callable kinds
    args = []
    nad = n.nodeargd
    if nad is not None and getattr(nad, 'argnlist', None):
        args = list(nad.argnlist)
    children = []
    for a in args:
        if a is None:
            continue
        children.append(a)
    body = None
    if k == 'environment':
        body = n.nodelist
    if strict:
        if k == 'macro':
            if not src.startswith('\\' + n.macroname):
                out.append(('anchor:macro', 'slice %r does not start with \\%s' % (src, n.macroname)))
            else:
                ps = n.macro_post_space or ''
                off = 1 + len(n.macroname)
                if src[off:off + len(ps)] != ps:
                    out.append(('macro-post-space', 'macro_post_space=%r but source has %r'
                                % (ps, src[off:off + len(ps)])))
        elif k == 'environment':
            m = _rx_begin.match(src)
            m2 = _rx_end.search(src)
            if not m or m.group(1) != n.environmentname:
                out.append(('anchor:environment-begin', 'slice %r does not start with '
                            '\\begin{%s}' % (src[:40], n.environmentname)))
            if not m2 or m2.group(1) != n.environmentname:
                out.append(('anchor:environment-end', 'slice %r does not end with \\end{%s}'
                            % (src[-40:], n.environmentname)))
        elif k == 'specials':
            ch = n.specials_chars
            if ch == '\n\n':
                if src.strip():
                    out.append(('anchor:paragraph', 'paragraph token covers %r' % (src,)))
            elif not src.startswith(ch):
                out.append(('anchor:specials', 'slice %r does not start with %r' % (src, ch)))
    allch = list(children)
    if body is not None:
        allch.append(body)
    # a list-valued argument is itself a span
    check_children_inside([c for c in allch if getattr(c, 'pos', None) is not None],
                          pos, pe, k, out)
    specs = list(getattr(nad, 'arguments_spec_list', None) or []) if nad is not None else []
    loose_ids = set(id(a) for i, a in enumerate(args)
                    if a is not None and i < len(specs) and not _standard_arg_parser(specs[i]))
    for c in allch:
        check_node(s, c, out, strict, loose=(id(c) in loose_ids))
    if strict and k == 'environment' and body is not None:
        m2 = _rx_end.search(src)
        if m2:
            bitems = _items(body)
            # the body starts where the \begin{name} token and the last argument that was
            # written end (the library keeps blanks after them in the body)
            mb = _rx_begin.match(src)
            start = pos + mb.end() if mb else None
            arg_ends = [a.pos_end for a in args if a is not None
                        and getattr(a, 'pos_end', None) is not None]
            if start is not None and arg_ends:
                start = max([start] + arg_ends)
            if bitems:
                first = next((x for x in bitems if x is not None), None)
                if first is not None and first.pos is not None:
                    check_tiling(bitems, first.pos, pos + m2.start(), 'environment-body', out,
                                 src=s)
                    if start is not None and first.pos > start and s[start:first.pos].strip() \
                            and all(_standard_arg_parser(sp) for sp in specs):
                        gap = s[start:first.pos]
                        out.append(('gap:environment-body:before-first-node',
                                    'body of %s starts at %d but its first node at %d (%r dropped)'
                                    % (n.environmentname, start, first.pos, gap)))


def check_strict(s, nodelist):
    """All C01 obligations for a strict parse result.  Returns [(key, detail)]."""
    out = []
    if nodelist is None:
        return [('none-result', 'parse returned None')]
    nodes = _items(nodelist)
    if len(s):
        if getattr(nodelist, 'pos', None) != 0 or getattr(nodelist, 'pos_end', None) != len(s):
            out.append(('nodelist-span', 'nodelist pos/pos_end = %r/%r, expected 0/%d'
                        % (getattr(nodelist, 'pos', None), getattr(nodelist, 'pos_end', None),
                           len(s))))
    check_tiling(nodes, 0, len(s), 'top', out)
    try:
        joined = ''.join(n.latex_verbatim() for n in nodes if n is not None)
    except Exception as e:      # noqa
        joined = None
        out.append(('latex_verbatim-raised', repr(e)))
    if joined is not None and joined != s:
        out.append(('verbatim-concat', 'concatenated latex_verbatim()=%r input=%r' % (joined, s)))
    for n in nodes:
        if n is not None:
            check_node(s, n, out, strict=True)
    return out


def check_tolerant(s, nodelist):
    """In-range / nesting part only."""
    out = []
    if nodelist is None:
        return out
    k = _kind(nodelist)
    if k == 'list':
        p, pe = getattr(nodelist, 'pos', None), getattr(nodelist, 'pos_end', None)
        if p is not None and pe is not None and not (0 <= p <= pe <= len(s)):
            out.append(('out-of-range:list', 'list pos=%r pos_end=%r len=%d' % (p, pe, len(s))))
    check_node(s, nodelist, out, strict=False)
    return out
