"""Regenerates /verif/MANIFEST.json from the table below:  python -m pv.manifest_gen"""
import json
import os

from . import VERIF

SETUP = ('/venv/bin/python -c "import hypothesis" 2>/dev/null || '
         '/venv/bin/pip install --no-index --find-links /opt/veriftools/wheels hypothesis; '
         '/venv/bin/python -c "import atheris" 2>/dev/null || '
         '/venv/bin/pip install --no-index --find-links /opt/veriftools/wheels '
         '--target /verif/.deps atheris >/dev/null 2>&1 || true; '
         'chmod +x /verif/check; /venv/bin/python -c "import hypothesis"')

BASELINE = ('cd /repo && /venv/bin/python -m pytest -ra -q -p no:cacheprovider --timeout=900 '
            '--continue-on-collection-errors')

# id -> (category, technique, level text, level note, design ref)
CHECKS = {
    'C01': ('exploration',
            'bounded-exhaustive token soups + Hypothesis grammar documents against a span/tiling '
            'invariant checker',
            'Span arithmetic checked on every strictly parseable string <= 3 (quick) / <= 4 tokens '
            '(thorough; <= 5 on a reduced alphabet) over the LaTeX-significant alphabet under the '
            'default and an every-argument-type context, plus thousands of grammar documents; '
            'tolerant results checked for range/nesting; also a context with the less common parser '
            'classes the library ships (comma list, chars group, embellishments, verbatim environment '
            'body ...). Thorough adds 16 coverage-guided atheris campaigns with the span oracle inside '
            'the target. Constructed calls of all four contexts with a blank / newline before each '
            'argument slot in turn. Exhaustive within the token bound only.',
            'Trusts the span checker (pv/spans.py, plain integer arithmetic on public attributes) '
            'and that % / \\ are the comment / escape characters.',
            'DESIGN.md 5 C01'),
    'C02': ('exploration',
            'grammar-based generation with a known AST (Hypothesis) + exhaustive derivations over '
            'a base catalogue; oracle = structure derived from the AST',
            'Tens of thousands of generated documents and all derivations of <= 2 (quick) / <= 3 '
            '(thorough) items over ~55 / ~35-item catalogues covering every declared-slot pattern, '
            'argument form and adjacency class, under the default context and three '
            'every-argument-type contexts; the normalised strict parse must equal the written '
            'structure slot by slot; constructed paragraph breaks (blank / tab fills) after a '
            'comment, a group and text.',
            'Generator construction rules (DESIGN 3.3) are preconditions enforced by construction; '
            'one known finding (nested bracket groups) is attributed by a differential AST variant.',
            'DESIGN.md 5 C02'),
    'C03': ('exploration',
            'Hypothesis canonical-form ASTs of the core sublanguage against a reference text model '
            'of the documented rules; metamorphic composition laws over the wider grammar',
            'Thousands (quick) / ~50k (thorough) core-sublanguage documents nested to depth 3, each '
            'under 10 (quick) / all 40 (thorough) combinations of strict_latex_spaces x math_mode x '
            'keep_braced_groups, compared string for string with a 150-line model that never sees '
            'pylatexenc\'s tree; plus composition laws (paragraph / space joining, transparent '
            'group and \\textbf) on generic generated blocks.',
            'Canonical-form generator rules are preconditions; ~20 symbol characters are stated in '
            'the model.',
            'DESIGN.md 5 C03'),
    'C04': ('exploration',
            'Hypothesis (string, rule-list configuration) pairs against a reference model of the '
            'documented encoding loop; concatenation law; partial-encoder model; cached-helper '
            'histories',
            'Thousands (quick) / >100k (thorough) generated rule lists mixing the three rule kinds '
            'with overlapping matches, multi-character consumption, per-rule protection, all '
            'protection schemes and unknown-character policies, compared chunk by chunk with a '
            '60-line model; every built-in character singly under 60 option sets; the partial '
            'encoder against a token-copy model (default keep characters, and kept blanks); call '
            'histories through the cached module-level helper and through edits of the list '
            'returned by get_builtin_conversion_rules(); decomposed (non-NFC) inputs for the '
            'partial encoder.',
            'Model interprets plain-data rule descriptors; replace/unihex outputs judged by '
            'predicate; no empty-match regex rules.',
            'DESIGN.md 5 C04'),
    'C05': ('fault_enumeration',
            'bounded-exhaustive token soups + single-fault injection at every token boundary of '
            'Hypothesis-generated documents; oracle = exception type/location and mandatory '
            'rejection',
            'Every soup <= 3 (quick) / <= 4 (thorough) tokens must give a tree or a located '
            'LatexWalkerParseError (pos in range, line/col = counting model); every single '
            'unmatched delimiter inserted at every token boundary outside comments of generated '
            'verbatim-free documents must be rejected. Enumerates all faults of the stated family '
            'on the generated documents; documents themselves are sampled. Error locations are checked '
            'under non-default walker line/column offsets too; thorough adds 16 atheris campaigns. '
            'Every accepted soup is also audited: each active brace, dollar sign and \\begin / \\end '
            'token (independent lexer, outside verbatim spans, where the innermost node has the '
            'feature enabled) must be the delimiter of a group / formula / environment node of the '
            'result -- a swallowed or unclosed token is an accepted unbalanced input.',
            'Parity argument for rejection; token boundaries from the independent mini tokenizer; '
            'documents are verbatim-free so every boundary is outside verbatim text.',
            'DESIGN.md 5 C05'),
    'C06': ('exploration',
            'bounded-exhaustive + random token soups, grammar documents and prefix+stray-token '
            'composites; differential against the strict parse; read-count termination monitor',
            'Tolerant parsing of every soup <= 3/4 tokens, random 40-token soups, documents and '
            'composites terminates without exception, returns a node list, equals the strict tree '
            'whenever strict succeeds, and keeps the nodes of a well-formed prefix before a stray '
            'closing token (also when the error is nested in a later construct) and, for documents with '
            'nothing closed at the end of input, every chars node that precedes the strict error '
            'position. Generic form over all four contexts: the top-level nodes (but the last two) of '
            'the longest strictly parsable token prefix open the tolerant result unchanged (135k '
            'constructed prefix + breaker + tail inputs in quick). Thorough adds 16 atheris '
            'campaigns with the same oracle inside the target. Inputs that are long in one dimension '
            'are first parsed in a forked child that is killed after 90 s (they take milliseconds): '
            'work inside the regular-expression engine is invisible to the work budget.',
            'Termination = bound on token-reader calls (200*(n+8)); prefix preservation is checked '
            'for prefixes closed by a group.',
            'DESIGN.md 5 C06'),
    'C07': ('exploration',
            'template sweep over every known macro/environment name x option sets, exhaustive '
            'token soups, grammar documents; oracle = returns str, no exception, bounded reads',
            'Every name of the default walker and latex2text databases (read at run time) in ~32 '
            'macro / 17 environment call shapes (eight of them varying what the arguments contain: '
            'digits, punctuation, non-ASCII, accent macros, blanks, nested groups), crossed with a pairwise-covering (quick) or the '
            'full 240-element (thorough) option product; plus all soups <= 2/3 tokens and '
            'generated documents; thorough adds 16 atheris campaigns (raw text and token-level byte '
            'decodings) with the oracle inside the target. The work budget counts rendered nodes as '
            'well as token reads; documents nested 10 and 22 deep in eight constructs; the exported '
            'formatter callables attached to custom text specs.',
            'Default context databases and default tolerant parsing; termination decided by the '
            'read-count bound.',
            'DESIGN.md 5 C07'),
    'C08': ('exploration',
            'round-trip oracle (encode then latex2text) over a pinned invertible alphabet: all '
            'single characters, neighbour-class pair matrix, Hypothesis strings; thorough: all '
            'ordered pairs',
            'Every pinned invertible character singly, representative pairs for every ordered '
            'pair of neighbour classes (replacement ends in control word / control symbol / brace '
            '/ char x next is letter / digit / space / newline / active / bracket / star / '
            'non-ASCII / punctuation) and 20k (quick) / 320k (thorough) random strings, under 4 '
            'brace protections x 2 whitespace policies; thorough also all ~1.6M ordered pairs.',
            'Alphabet pinned in pv/data/c08_invertible.txt (excluded characters listed with class '
            'in c08_excluded.txt); strings are NFC-stable, ligature-free, whitespace-normal.',
            'DESIGN.md 5 C08'),
    'C09': ('exploration',
            'call histories (exhaustive orderings + Hypothesis) executed in forked children and '
            'compared step by step with the same parse in a brand-new interpreter; context '
            'database snapshots',
            'All orderings of every 3-subset of an 8-document suspicious pool (strict and '
            'tolerant) and hundreds (quick) / thousands (thorough) of random histories over a '
            '32-document pool x 3 context recipes sharing one database object per recipe and the '
            'global argument-parser cache; every step equals the fresh-interpreter result and '
            'leaves the database snapshot unchanged; ordered pairs over ~70 documents chosen to '
            'leave a parser in the middle of something (unknown names, aborted arguments of every '
            'parser class, verbatim arguments cut at nesting depth 1-3); histories in which the default '
            'database is built anew for every parse; recipes whose parse starts with ( ) as further '
            'group delimiters; context-extending environments nested in one another; two recipes '
            'taking parsers from get_standard_argument_parser() with opposite option values.',
            'Finite document pool covering every argument parser class the library ships (state '
            'leaking only through other inputs is not seen); freeze() flag excluded from the '
            'snapshot.',
            'DESIGN.md 5 C09'),
    'C10': ('exploration',
            'bounded-exhaustive strings differentially against a recursive-descent reference '
            'parser + Hypothesis documents with an AST-derived per-offset mode map',
            'All strings <= 6 (quick) / <= 7 (thorough) over the nine math-relevant symbols agree '
            'with a 60-line reference on accept/reject, formula spans, display types, delimiters '
            'and per-character modes; thousands of generated documents nesting math / text / '
            'ensuremath / environments to depth 5 have every node\'s recorded mode equal to the '
            'mode implied by the generating AST; a table sweep of every math environment and '
            'text-mode macro of the default database in six hosts, with blanks between \\begin / '
            '\\end and the name, including the mode of what follows the environment; a scoping sweep '
            '(a state-switching macro inside ten kinds of construct x five hosts: mode and settings '
            'before / inside / after the switch / after the construct); all strings <= 3 / <= 4 symbols '
            'under 16 restrictions of the delimiter lists x {fresh, derived once, derived twice} '
            'states: a formula only for a declared pair.',
            'Reference parser and AST mode rules transcribe the documented behaviour (expected '
            'closing delimiter first, longest delimiter otherwise; argument and body deltas).',
            'DESIGN.md 5 C10'),
    'C11': ('exploration',
            'bounded-exhaustive token soups x parsing-state configuration catalogue + random long '
            'strings; relational oracle over the whole token sequence (lossless, progress, '
            'peek-pure, rewind)',
            'All strings <= 3 tokens over the significant alphabet under 24 (quick) / ~200 '
            '(thorough, pairwise) parsing-state configurations, strict and tolerant reader, plus '
            'random 60-token strings; only the public reader API is driven; reads interleaved with '
            'peeks under six kinds of other parsing states; the token-list reader under the same '
            'protocol.',
            'Token equality on public fields; a LatexWalkerTokenParseError legitimately ends a '
            'strict reading.',
            'DESIGN.md 5 C11'),
    'C12': ('exploration',
            'Hypothesis grammar documents with unique marker words per content class; '
            'presence/absence oracle over latex2text output across option sets',
            'Thousands of documents (quick) / 40k (thorough) with comment, formula, discarded and '
            'ordinary-text markers at every nesting position, converted under pairwise-covering '
            '(quick) or all 80 (thorough) combinations of math_mode x keep_comments x whitespace '
            'policy x fill_text; leaks are checked everywhere, required appearances at positions '
            'visible by construction.',
            'Custom discard=True text specs on top of matching walker specs; visibility rules '
            'listed in the evidence assumptions.',
            'DESIGN.md 5 C12'),
    'C13': ('exploration',
            'bounded-exhaustive active-character strings, every built-in character in six '
            'neighbour templates, Hypothesis mixtures; oracle = strict parse of the encoder output '
            '+ node-kind census + table-computed fail/ASCII predicates',
            'All strings <= 3/4 over the ten active ASCII characters (+4 neutral ones), every '
            'character of both built-in tables, random mixtures with arbitrary code points, each '
            'under 2 rule sets x 5 protections x 5 policies: output parses strictly, braces '
            'balance, no comment / environment / foreign math node, ASCII-only where promised, '
            'ValueError exactly where the tables say; inputs with unknown characters also with the '
            'unknown_char_warning option left at its default, and a quarter of the default-rule-set '
            'inputs also through the module-level shorthand after a call with other options; one '
            'shard runs after a pylatexenc-1 style edit of the module-level utf82latex dictionary.',
            'Default walker context for the strict parse; 13 combining characters of the '
            'unicode-xml table are listed known findings and excluded by construction.',
            'DESIGN.md 5 C13'),
    'C14': ('exploration',
            'model-based testing over generated operation histories (Hypothesis) and exhaustive '
            'short histories; reference model of the category-ordered database',
            'Thousands of random histories (<= 25 / 50 operations) plus all sequences <= 3 / 4 over '
            'a 20-operation alphabet; after every step every live database (original and derived) '
            'is compared with a 100-line reference model on categories, every lookup, iteration '
            'order, longest-match specials and error types.',
            'Reference model transcribes the documented semantics; specs compared by identity; one '
            'documented error condition per call.',
            'DESIGN.md 5 C14'),
    'C15': ('exploration',
            'Hypothesis-generated directory layouts (real temp file system, symlinks) x generated '
            'path names; differential against an independent realpath/commonpath resolver',
            'Hundreds (quick) / ~13k (thorough) layouts with drawn symlink sets, 8-40 requested '
            'names each (.., ., absolute, sibling-prefix, link and extension-fallback names), '
            'through read_input_file, \\input and \\include; unique markers identify which file '
            'was returned.',
            'POSIX symlink semantics of the sandbox file system; positive direction only where '
            'the lookup order is unambiguous.',
            'DESIGN.md 5 C15'),
    'C16': ('exploration',
            'differential testing legacy API vs independently written pylatexenc-3 formulations on '
            'bounded-exhaustive soups x all start positions; all 120 argument strings x all spec '
            'spellings x generated call strings',
            'Every soup <= 3 (quick) / <= 4 (thorough) tokens over a 20-token alphabet at every '
            'token start position, through ~25 legacy call variants, each compared (dump, pos, '
            'len, failure parity) with the equivalent new-parser formulation; all argument strings '
            'over {*,[,{} up to length 4 through 8-10 spellings for macros and environments on '
            'every present/absent pattern with and without whitespace, plus the documented legacy '
            'nodeoptarg/nodeargs views; get_latex_expression with strict_braces None/False '
            '(documented empty result = failing), explicit parsing_state=, tolerant walkers, call '
            'strings with a math delimiter where a mandatory argument is expected; environment '
            'spellings also with is_math_mode=True (recorded modes compared); args_math_mode '
            'against per-argument mode deltas; combined get_token() options; all entry points in '
            'sequence on one walker object against a walker of their own.',
            'Documented legacy post-processing (nodeargd=None from get_latex_expression, math mode '
            'assumed open for stop_upon_closing_mathmode) is part of the oracle.',
            'DESIGN.md 5 C16'),
    'C17': ('exploration',
            'Hypothesis-generated sub_context() chains; differential derived-vs-fresh state on '
            'exhaustive short strings over the chain\'s own delimiter alphabet',
            'All chains of <= 3 (quick) / <= 4 (thorough) steps over 13 math-related steps plus '
            'hundreds / thousands of random chains of 1-5 sub_context calls over all field groups; for each chain every string <= 3/4 tokens over an alphabet containing '
            'every configured delimiter is tokenized (strict + tolerant) and parsed under the '
            'derived and the freshly constructed state; parents are snapshot before and after; '
            'each derived state\'s fields equal those of a state constructed from the parent\'s '
            'fields with the requested ones replaced; exhaustive families per field group incl. '
            'the context database.',
            'Only public API is used; equality of token tuples and canonical tree dumps.',
            'DESIGN.md 5 C17'),
    'C18': ('exploration',
            'bounded-exhaustive token lists x option catalogue + Hypothesis lists; string-plus-mask '
            'reference model and validity predicates',
            'All argument-like token lists <= 4/5 tokens over an 11-token alphabet (separators in '
            'every position, protected separators in groups/macros/comments) under up to 60 '
            'split_at_chars option sets, all lists <= 4/5 tokens for split_at_node (32 option sets) '
            'and <= 5/6 tokens for parse_keyval_content (20 option sets), plus random lists with None '
            'entries; the argument views (get_content_nodelist with the documented double-group '
            'rule, parse_content_as_keyval), filter() under 24 flag sets and get_content_as_chars() '
            'on all lists <= 4/5 tokens over two further alphabets; regex separators that look to '
            'the left (lookbehind, anchor).',
            'Top-level chars spans come from the strict parse; max_split with keep_empty=False is '
            'judged by a validity predicate, by the letter of the statement.',
            'DESIGN.md 5 C18'),
    'C19': ('exploration',
            'Hypothesis grammar documents + exhaustive/random tolerant soups; recording visitor '
            'compared with an independent post-order enumeration of the tree',
            'Thousands (quick) / ~100k (thorough) trees with every node kind, absent and present '
            'arguments, list-valued arguments and (tolerant) missing bodies; the complete callback '
            'log (callback, object identity, children results) must equal the harness\'s own '
            'post-order; each tree is visited by a recorder returning unique tokens, by one returning '
            'falsy values and by one that only reimplements visit().',
            'Child enumeration is the harness\'s own (arguments in order, then body); documented '
            'defaults accepted for missing bodies.',
            'DESIGN.md 5 C19'),
    'C20': ('exploration',
            'bounded-exhaustive enumeration against a counting reference model',
            'Every string <= 7 (quick) / <= 9 (thorough) over {a, NL, CR, space}, every position, '
            '16 offset settings, compared with an independent counting model; plus line/column of '
            'every strict parse error on an exhaustive family of faulty multi-line inputs. '
            'Complete within the bound, nothing beyond it.',
            'Trusts the 5-line counting model (lines are separated by \\n only) and that '
            'line_number_offset names the first line.',
            'DESIGN.md 5 C20'),
}

NOT_YET = {}


def build():
    props = [json.loads(l) for l in open(os.path.join(VERIF, 'properties.jsonl'))]
    checks = []
    na = []
    for p in props:
        pid = p['id']
        if pid in CHECKS:
            cat, tech, text, note, ref = CHECKS[pid]
            checks.append({
                'property_id': pid,
                'quick_cmd': './check %s --tier quick' % pid,
                'thorough_cmd': './check %s --tier thorough' % pid,
                'evidence_file': 'evidence/%s.json' % pid,
                'replay_cmd_template': './check %s --replay {path}' % pid,
                'engine': 'pv',
                'level_claimed': {'category': cat, 'text': text, 'design_ref': ref},
                'level_note': note,
                'technique': tech,
            })
        else:
            na.append({'property_id': pid,
                       'reason': NOT_YET.get(pid, 'check designed (DESIGN.md section 5) but not '
                                                  'yet built; not claimed until it runs quietly '
                                                  'on the unchanged tree')})
    return {
        'version': 1,
        'setup_cmd': SETUP,
        'hooks': {
            'guard': 'PYLATEXENC_VERIF',
            'enable': 'no source hooks are needed: checks import /repo directly and observe '
                      'through public API; ./check exports PYLATEXENC_VERIF=1 for uniformity',
            'baseline_off_cmd': BASELINE,
            'source_commits': [],
            'add_only': True,
        },
        'engines': [{
            'name': 'pv',
            'path': 'pv/',
            'serves_properties': [c['property_id'] for c in checks],
            'kind_free_text': 'property-based testing: bounded-exhaustive enumeration, '
                              'Hypothesis strategies and state machines, reference models, '
                              'differential and metamorphic oracles; 16-way process pool',
        }],
        'checks': checks,
        'not_applicable': na,
        'notes': 'See DESIGN.md. Known findings: KNOWN_FINDINGS.txt. Exit 2 = harness error.',
    }


if __name__ == '__main__':
    m = build()
    with open(os.path.join(VERIF, 'MANIFEST.json'), 'w') as f:
        json.dump(m, f, indent=1)
        f.write('\n')
    print('wrote MANIFEST.json: %d checks, %d not claimed' % (len(m['checks']), len(m['not_applicable'])))
