"""Coverage-guided fuzzing (atheris / libFuzzer) of a property's own oracle.

Child process:   python -m pv.fuzz <Cxx> <outdir> <runs> <seed>
  every libFuzzer input is decoded into a source string, turned into a replayable case by the
  property module's ``fuzz_case(s, i)`` and given to that module's ``check_case`` -- i.e. the
  semantic oracle sits inside the fuzz target and is the same one the other shards use.  Failures
  are recorded, never raised, so that a shallow defect does not end the campaign; the Result is
  pickled to <outdir>/result.pkl.

Parent (a shard of the thorough tier):  fuzz.campaign(ID, runs, seed, res)
  runs the child, merges its Result.  If atheris cannot be imported the shard records the class
  'fuzz:unavailable' and contributes nothing (the other shards are unaffected).
"""
import sys, os, pickle, shutil, subprocess, tempfile, importlib

HERE = os.path.dirname(os.path.dirname(os.path.abspath(__file__)))
SEEDS = ['\\textbf{a}$x^2$', '\\begin{itemize}\\item[a] b\\end{itemize}',
         '%c\n\\verb|x| \\[ \\frac{1}{2} \\]', 'a\n\n``b\'\' \\\'e~\\&',
         '\\begin{tabular}{cc}a&b\\\\ c\\end{tabular}', '\\(\\sqrt[3]{x}\\)\\begin{verbatim}x\\end{verbatim}']


def decode(data):
    """bytes -> str.  The first byte picks the vocabulary: raw utf-8 text, or one byte per token
    over the LaTeX-significant alphabet (so that libFuzzer's mutations act on whole tokens)."""
    if not data:
        return ''
    mode, body = data[0], data[1:]
    if mode % 3 == 0:
        return body.decode('utf-8', 'replace')
    from .alphabets import SIG
    from .contexts import EXTRA_TOKENS
    alpha = SIG if mode % 3 == 1 else SIG + [t for t in EXTRA_TOKENS if t not in SIG]
    return ''.join(alpha[b % len(alpha)] for b in body[:60])


def child_main():
    pid, outdir, runs, seed = sys.argv[1], sys.argv[2], int(sys.argv[3]), int(sys.argv[4])
    from .engine import Result
    mod = importlib.import_module('pv.props.' + pid.lower())
    os.makedirs(outdir + '/corpus', exist_ok=True)
    for i, s in enumerate(SEEDS):
        open('%s/corpus/seed%d' % (outdir, i), 'wb').write(b'\x00' + s.encode())
    import atheris
    res = Result()
    st = {'calls': 0}

    def flush():
        tmp = outdir + '/result.pkl.tmp'
        pickle.dump(res, open(tmp, 'wb'))
        os.replace(tmp, outdir + '/result.pkl')

    def one(data):
        st['calls'] += 1
        s = decode(data)
        if len(s) <= 200:
            case = mod.fuzz_case(s, st['calls'])
            try:
                mod.check_case(case, res)
            except RecursionError:
                pass
            res.label('fuzz:input', case if len(s) > 8 else None)
        if st['calls'] % 1000 == 0 or st['calls'] >= runs - 5:
            flush()

    atheris.instrument_all()
    flush()
    atheris.Setup([sys.argv[0], '-runs=%d' % runs, '-seed=%d' % (seed or 1), '-max_len=120',
                   '-verbosity=0', '-print_final_stats=0', outdir + '/corpus'], one)
    atheris.Fuzz()


def campaign(pid, runs, seed, res):
    os.makedirs(os.path.join(HERE, 'out', 'fuzz'), exist_ok=True)
    outdir = tempfile.mkdtemp(prefix='%s-%d-' % (pid, seed), dir=os.path.join(HERE, 'out', 'fuzz'))
    try:
        env = dict(os.environ)
        deps = os.path.join(HERE, '.deps')
        env['PYTHONPATH'] = os.pathsep.join([deps, HERE] + [p for p in env.get('PYTHONPATH', '').split(os.pathsep) if p])
        p = subprocess.run([sys.executable, '-B', '-c', 'import atheris'], env=env,
                           stdout=subprocess.DEVNULL, stderr=subprocess.DEVNULL)
        if p.returncode != 0:
            res.label('fuzz:unavailable')
            return
        p = subprocess.run([sys.executable, '-B', '-m', 'pv.fuzz', pid, outdir, str(runs), str(seed)],
                           env=env, cwd=HERE, stdout=subprocess.DEVNULL, stderr=subprocess.PIPE)
        pk = outdir + '/result.pkl'
        if not os.path.exists(pk):
            from .engine import HarnessError
            raise HarnessError('fuzz child produced no result: rc=%s %s'
                               % (p.returncode, p.stderr.decode('utf-8', 'replace')[-800:]))
        child = pickle.load(open(pk, 'rb'))
        child.exhaustive = None
        res.merge(child)
        res.label('fuzz:campaign')
    finally:
        shutil.rmtree(outdir, ignore_errors=True)


if __name__ == '__main__':
    child_main()
