"""CLI:  python -m pv.run Cxx --tier quick|thorough   |   --replay <file>"""
from __future__ import annotations

import argparse
import glob
import hashlib
import importlib
import json
import multiprocessing
import os
import re
import signal
import sys
import time

from . import VERIF, REPO
from .engine import Result, HarnessError, jdump, format_exception

BACKSTOP_S = {'quick': 3 * 3600, 'thorough': 12 * 3600}    # hang protection only; generous so that a loaded machine never trips it


# ---------------------------------------------------------------------------
# known findings

class Known(object):
    def __init__(self, path):
        self.known = {}     # (prop, key) -> description
        self.fixed = []
        if not os.path.exists(path):
            return
        for line in open(path, encoding='utf-8'):
            line = line.rstrip('\n')
            if not line.strip() or line.lstrip().startswith('#'):
                continue
            m = re.match(r'known:\s+property=(\S+)\s+key=(\S+)\s+::\s+(.*)$', line)
            if m:
                self.known[(m.group(1), m.group(2))] = m.group(3)
                continue
            m = re.match(r'fixed:\s+property=(\S+)\s+(\S+)\s+(.*)$', line)
            if m:
                self.fixed.append((m.group(1), m.group(2), m.group(3)))
                continue
            raise HarnessError('KNOWN_FINDINGS.txt: cannot parse line %r' % line)

    def lookup(self, prop, key):
        return self.known.get((prop, key))


# ---------------------------------------------------------------------------
# workers

def load_prop(pid):
    return importlib.import_module('pv.props.%s' % pid.lower())


def _work(args):
    pid, idx, shard = args
    try:
        mod = load_prop(pid)
        res = Result()
        mod.run_shard(shard, res)
        return idx, res, None
    except BaseException as e:     # noqa -- reported as harness error by the parent
        return idx, None, 'shard %r: %s' % (shard, format_exception(e))


def run_shards(pid, shards, jobs):
    total = Result()
    if not shards:
        return total
    tasks = [(pid, i, s) for i, s in enumerate(shards)]
    results = {}
    if jobs <= 1 or len(tasks) == 1:
        for t in tasks:
            idx, res, err = _work(t)
            if err:
                raise HarnessError(err)
            results[idx] = res
    else:
        # (an executor, not multiprocessing.Pool: a worker that dies -- e.g. a C-stack overflow on
        # deeply nested input -- must end the run with a harness error, not hang it)
        import concurrent.futures as cf
        ctx = multiprocessing.get_context('fork')
        with cf.ProcessPoolExecutor(max_workers=min(jobs, len(tasks)), mp_context=ctx) as ex:
            futs = [ex.submit(_work, t) for t in tasks]
            try:
                for fut in cf.as_completed(futs):
                    idx, res, err = fut.result()
                    if err:
                        raise HarnessError(err)
                    results[idx] = res
            except cf.process.BrokenProcessPool as e:
                raise HarnessError('a shard worker died: %s' % e)
            finally:
                for f in futs:
                    f.cancel()
    for idx in sorted(results):
        total.merge(results[idx])
    return total


# ---------------------------------------------------------------------------

def replay_path_for(pid, key, case):
    h = hashlib.sha1((key + '\0' + jdump(case)).encode('utf-8', 'surrogatepass')).hexdigest()[:12]
    slug = re.sub(r'[^A-Za-z0-9_.-]+', '_', key)[:60]
    d = os.path.join(VERIF, 'out', 'replays', pid)
    os.makedirs(d, exist_ok=True)
    return os.path.join(d, '%s-%s.json' % (slug, h))


def write_replay(pid, rec):
    path = replay_path_for(pid, rec['key'], rec['case'])
    with open(path, 'w', encoding='utf-8') as f:
        json.dump({'property': pid, 'key': rec['key'], 'detail': rec['detail'],
                   'case': rec['case']}, f, indent=1, sort_keys=True, ensure_ascii=True)
        f.write('\n')
    return os.path.relpath(path, VERIF)


def pick_samples(res, limit=14):
    out = []
    seen = set()
    labs = sorted(res.samples)
    i = 0
    while len(out) < limit:
        progressed = False
        for lab in labs:
            l = res.samples[lab]
            if i < len(l):
                progressed = True
                j = jdump(l[i])
                if j not in seen and len(j) < 2000:
                    seen.add(j)
                    out.append({'class': lab, 'case': l[i]})
                    if len(out) >= limit:
                        break
        if not progressed:
            break
        i += 1
    return out


def write_evidence(mod, pid, tier, seed, res, wall, nviol, known_lines, bounds):
    cov = {
        'evaluations': res.evaluations,
        'distinct_nontrivial': res.distinct_nontrivial,
        'rule': mod.RULE,
        'samples': pick_samples(res),
        'classes': dict(sorted(res.classes.items())),
        'bounds': bounds,
        'excluded_known': {k: res.failure_counts[k] for k in known_lines},
        'failure_buckets': dict(sorted(res.failure_counts.items())),
        'repo': REPO,
    }
    if res.exhaustive is not None:
        cov['exhaustive'] = bool(res.exhaustive)
    if res.notes:
        cov['notes'] = sorted(set(res.notes))[:20]
    ev = {
        'property_id': pid,
        'tier': tier,
        'seed': seed,
        'level': mod.LEVEL,
        'coverage': cov,
        'assumptions': list(getattr(mod, 'ASSUMPTIONS', [])),
        'wall_s': round(wall, 2),
        'violations': nviol,
    }
    d = os.path.join(VERIF, 'evidence')
    os.makedirs(d, exist_ok=True)
    tmp = os.path.join(d, '%s.json.tmp' % pid)
    with open(tmp, 'w', encoding='utf-8') as f:
        json.dump(ev, f, indent=1, sort_keys=True, ensure_ascii=True)
        f.write('\n')
    os.replace(tmp, os.path.join(d, '%s.json' % pid))


def report(pid, mod, res, known, minimise=True):
    """Print KNOWN-FINDING / VIOLATION lines; return (n_violations, known_keys)."""
    nviol = 0
    known_keys = []
    for key in sorted(res.failures):
        recs = res.failures[key]
        desc = known.lookup(pid, key)
        if desc is not None:
            known_keys.append(key)
            print('KNOWN-FINDING: property=%s %s [key=%s, %d case(s) this run]'
                  % (pid, desc, key, res.failure_counts[key]))
            continue
        rec = recs[0]
        if minimise and hasattr(mod, 'minimise'):
            try:
                small = mod.minimise(rec['case'], key)
                if small is not None:
                    r2 = Result()
                    mod.check_case(small, r2)
                    if key in r2.failures:
                        rec = r2.failures[key][0]
            except Exception as e:       # minimisation is best effort
                print('note: minimisation failed for %s: %r' % (key, e))
        path = write_replay(pid, rec)
        nviol += 1
        print('VIOLATION property=%s replay=%s' % (pid, path))
        print('  key=%s (%d failing case(s))' % (key, res.failure_counts[key]))
        print('  detail: %s' % (rec['detail'],))
        print('  case: %s' % (jdump(rec['case'])[:600],))
    return nviol, known_keys


def _backstop(signum, frame):
    raise HarnessError('wall-clock backstop reached: run is inconclusive')


def main(argv=None):
    ap = argparse.ArgumentParser()
    ap.add_argument('prop')
    ap.add_argument('--tier', choices=['quick', 'thorough'],
                    default=os.environ.get('VERIF_TIER') or 'quick')
    ap.add_argument('--replay', default=None)
    ap.add_argument('--jobs', type=int, default=int(os.environ.get('PV_JOBS', '16')))
    ap.add_argument('--no-evidence', action='store_true')
    args = ap.parse_args(argv)
    pid = args.prop.upper()
    seed = int(os.environ.get('VERIF_SEED', '1') or '1')
    t0 = time.time()
    try:
        mod = load_prop(pid)
        known = Known(os.path.join(VERIF, 'KNOWN_FINDINGS.txt'))

        if args.replay:
            path = args.replay if os.path.isabs(args.replay) else os.path.join(VERIF, args.replay)
            data = json.load(open(path, encoding='utf-8'))
            res = Result()
            mod.check_case(data['case'], res)
            res.case()
            if not res.failures:
                print('replay %s: property %s holds on this case' % (args.replay, pid))
                return 0
            nviol = 0
            for key in sorted(res.failures):
                desc = known.lookup(pid, key)
                rec = res.failures[key][0]
                if desc is not None:
                    print('KNOWN-FINDING: property=%s %s [key=%s]' % (pid, desc, key))
                    continue
                nviol += 1
                print('VIOLATION property=%s replay=%s' % (pid, args.replay))
                print('  key=%s' % key)
                print('  detail: %s' % (rec['detail'],))
            return 1 if nviol else 0

        signal.signal(signal.SIGALRM, _backstop)
        signal.alarm(BACKSTOP_S[args.tier])

        plan = mod.plan(args.tier, seed)
        res = Result()

        # regression tier: committed replay corpus (cases that once failed)
        corpus = sorted(glob.glob(os.path.join(VERIF, 'replays', pid, '*.json')))
        for path in corpus:
            data = json.load(open(path, encoding='utf-8'))
            r = Result()
            mod.check_case(data['case'], r)
            r.case()
            r.label('regression-corpus')
            res.merge(r)

        res.merge(run_shards(pid, plan['shards'], args.jobs))
        signal.alarm(0)

        nviol, known_keys = report(pid, mod, res, known, minimise=True)
        if not pick_samples(res):
            if nviol:
                # every case failed before it could be classified: the failing cases are the
                # samples (a violation must be reported as such, exit 1)
                for key, recs in sorted(res.failures.items())[:3]:
                    res.label('violating-case', recs[0]['case'])
            else:
                raise HarnessError('no sample cases were recorded (evidence would be invalid)')
        if nviol == 0:
            # generator sanity is only meaningful when no unlisted failure cut cases short
            for lab in plan.get('required_classes', []):
                if not res.classes.get(lab):
                    raise HarnessError('class %r promised by the design was never generated '
                                       '(generator problem, not a verdict)' % lab)
            if res.evaluations < 1 or res.distinct_nontrivial < 2:
                raise HarnessError('vacuous run: %d evaluations, %d non-trivial'
                                   % (res.evaluations, res.distinct_nontrivial))
        wall = time.time() - t0
        if not args.no_evidence:
            write_evidence(mod, pid, args.tier, seed, res, wall, nviol, known_keys,
                           plan.get('bounds', {}))
        print('%s %s: %d cases, %d distinct non-trivial, %d violation bucket(s), '
              '%d known bucket(s), %.1fs'
              % (pid, args.tier, res.evaluations, res.distinct_nontrivial, nviol,
                 len(known_keys), wall))
        return 1 if nviol else 0
    except HarnessError as e:
        print('HARNESS-ERROR property=%s: %s' % (pid, e), file=sys.stderr)
        return 2
    except Exception as e:
        print('HARNESS-ERROR property=%s: %s' % (pid, format_exception(e)), file=sys.stderr)
        return 2


if __name__ == '__main__':
    sys.exit(main())
