#!/bin/sh
# validates MANIFEST.json and every evidence file against the schemas (uses the tooling venv's jsonschema)
cd /verif && python3-vt - <<'PY'
import json, glob, jsonschema, sys
ok = True
jsonschema.validate(json.load(open('MANIFEST.json')), json.load(open('/root/.vp/MANIFEST.schema.json')))
sch = json.load(open('/root/.vp/EVIDENCE.schema.json'))
for f in sorted(glob.glob('evidence/*.json')):
    try:
        jsonschema.validate(json.load(open(f)), sch)
    except Exception as e:
        ok = False; print('INVALID', f, str(e)[:200])
print('all valid' if ok else 'PROBLEMS')
sys.exit(0 if ok else 1)
PY
