#!/bin/sh
# usage: tools/mutant.sh <relative file under pylatexenc/> <sed expression> <Cxx> [tier]
# Applies a one-line mutation to a scratch copy of the tree (never /repo) and runs a check on it.
set -e
d=$(mktemp -d /tmp/pvmut.XXXXXX)
rsync -a --exclude __pycache__ /repo/pylatexenc "$d/"
sed -i "$2" "$d/pylatexenc/$1"
if diff -q "$d/pylatexenc/$1" "/repo/pylatexenc/$1" >/dev/null; then echo "MUTATION DID NOT APPLY"; rm -rf "$d"; exit 3; fi
diff "/repo/pylatexenc/$1" "$d/pylatexenc/$1" || true
set +e
PV_REPO="$d" /verif/check "$3" --tier "${4:-quick}" --no-evidence 2>&1 | grep -v '^  case:' | head -${LINES_MAX:-12}
rm -rf "$d"
