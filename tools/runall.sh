#!/bin/sh
# usage: tools/runall.sh [quick|thorough]   -- runs every registered check, prints one line each
tier=${1:-quick}
cd /verif
for c in C01 C02 C03 C04 C05 C06 C07 C08 C09 C10 C11 C12 C13 C14 C15 C16 C17 C18 C19 C20; do
  out=$(./check $c --tier $tier 2>&1); rc=$?
  echo "$c rc=$rc $(echo "$out" | grep -v "^KNOWN" | grep -E "^C[0-9]+ |HARNESS" | tail -1 | cut -c1-150)"
  echo "$out" | grep -E "^VIOLATION" | head -5
done
