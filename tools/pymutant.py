#!/usr/bin/env python3
"""usage: tools/pymutant.py <Cxx> <file under pylatexenc/> <<< "OLD\n=====\nNEW"
Applies a multi-line replacement to a scratch copy of the tree and runs a check on it."""
import os, shutil, subprocess, sys, tempfile
prop, path = sys.argv[1], sys.argv[2]
tier = sys.argv[3] if len(sys.argv) > 3 else 'quick'
old, new = sys.stdin.read().split('\n=====\n')
new = new.rstrip('\n') + '\n' if old.endswith('\n') else new.rstrip('\n')
d = tempfile.mkdtemp(prefix='pvmut.')
try:
    subprocess.check_call(['rsync', '-a', '--exclude', '__pycache__', '/repo/pylatexenc', d + '/'])
    p = os.path.join(d, 'pylatexenc', path)
    s = open(p).read()
    if s.count(old) != 1:
        print('MUTATION DID NOT APPLY (%d matches)' % s.count(old))
        sys.exit(3)
    open(p, 'w').write(s.replace(old, new))
    out = subprocess.run(['/verif/check', prop, '--tier', tier, '--no-evidence'],
                         env=dict(os.environ, PV_REPO=d), capture_output=True, text=True)
    lines = [l for l in (out.stdout + out.stderr).splitlines() if not l.startswith('  case')]
    print('\n'.join(lines[:int(os.environ.get('LINES_MAX', '6'))]))
finally:
    shutil.rmtree(d, ignore_errors=True)
