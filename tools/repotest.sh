#!/bin/sh
# runs the repository's own pinned test suite (guard off) and prints the summary line
cd /repo && env -u PYLATEXENC_VERIF /venv/bin/python -m pytest -q -p no:cacheprovider --timeout=900 --continue-on-collection-errors 2>&1 | grep -E "[0-9]+ (passed|failed|error)" | tail -2
