#!/bin/bash
# re-validates every seeded change against the check of its own property (4 at a time)
cd /verif
one() {
  d=$1; id=$(basename $d | cut -c1-3)
  targets=$id
  [ "$(basename $d)" = "C13" ] && targets="C04 C08"
  echo "== $(basename $d) -> $targets $(tools/seedcheck.sh $d $targets 2>&1 | grep -E "^C[0-9]+ rc|exit=|passed|failed|PATCH" | cut -c1-160 | tr '\n' '|')"
}
for d in seeded/C*; do
  one $d &
  while [ $(jobs -r | wc -l) -ge ${JOBS:-4} ]; do sleep 1; done
done
wait
