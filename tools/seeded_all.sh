#!/bin/sh
# re-validates every seeded change against the check(s) that should catch it
cd /verif
for d in seeded/C*; do
  id=$(basename $d)
  targets=$id
  [ "$id" = "C13" ] && targets="C04 C08"
  echo "== $id -> $targets"
  tools/seedcheck.sh $d $targets 2>&1 | grep -E "^C[0-9]+ rc|exit=|passed|failed|PATCH" | cut -c1-160
done
