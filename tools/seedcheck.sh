#!/bin/sh
# usage: tools/seedcheck.sh <dir containing patch.diff and demo.py> [Cxx ...]
# Confirms a seeded change (tests pass, demo fails with / passes without) in a scratch worktree of /repo,
# then runs the given checks (default: all) against that worktree through PV_REPO.  Never touches /repo's tree.
set -u
src=$(cd "$1" && pwd); shift
wt=$(mktemp -d /tmp/seedchk.XXXXXX); rmdir "$wt"
git -C /repo worktree add --detach "$wt" HEAD -q || exit 2
trap 'git -C /repo worktree remove --force "$wt" >/dev/null 2>&1; rm -f "$wt.out"' EXIT
cd "$wt"
echo "== demo without the change:"; PYTHONPATH="$wt" /venv/bin/python "$src/demo.py" >"$wt.out" 2>&1; echo "exit=$? $(tail -1 "$wt.out" | cut -c1-150)"
git apply "$src/patch.diff" || { echo "PATCH DOES NOT APPLY"; exit 3; }
echo "== repository tests with the change:"; PYTHONPATH="$wt" /venv/bin/python -m pytest -q -p no:cacheprovider 2>&1 | grep -E "[0-9]+ (passed|failed|error)" | tail -1
echo "== demo with the change:"; PYTHONPATH="$wt" /venv/bin/python "$src/demo.py" >"$wt.out" 2>&1; echo "exit=$? $(tail -1 "$wt.out" | cut -c1-150)"
checks="$*"; [ -z "$checks" ] && checks="C01 C02 C03 C04 C05 C06 C07 C08 C09 C10 C11 C12 C13 C14 C15 C16 C17 C18 C19 C20"
for c in $checks; do
  out=$(PV_REPO="$wt" /verif/check $c --tier ${TIER:-quick} --no-evidence 2>&1); rc=$?
  echo "$c rc=$rc $(echo "$out" | grep -E "^VIOLATION" | head -2 | tr '\n' ' ' | cut -c1-200)"
done
