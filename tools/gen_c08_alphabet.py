#!/venv/bin/python
"""Regenerates pv/data/c08_invertible.txt / c08_excluded.txt from the tree under test.
Run once; the files are committed (the invertible alphabet is *pinned*, DESIGN 5 C08)."""
import sys, unicodedata
sys.path.insert(0, '/verif')
import pv
from pv.props import c08
inv, exc = c08.classify_all()
with open('/verif/pv/data/c08_invertible.txt', 'w', encoding='utf-8') as f:
    f.write('# code points (hex) whose default encoding latex2text inverts under all 8 configurations\n')
    for o in inv:
        f.write('%04X\n' % o)
with open('/verif/pv/data/c08_excluded.txt', 'w', encoding='utf-8') as f:
    f.write('# code point, class, encoding, what comes back (first failing configuration)\n')
    for o, cls, enc, back in exc:
        f.write('%04X\t%s\t%s\t%s\n' % (o, cls, enc, back.encode('unicode_escape').decode()))
print(len(inv), 'invertible;', len(exc), 'excluded')
import collections
print(collections.Counter(c for _, c, _, _ in exc))
