#!/venv/bin/python
"""usage: tools/mkseedprompts.py <round> <outdir>
Writes one prompt file per property for a fresh sub-agent that is to write a property-breaking
change in its own scratch worktree <outdir>/<id> (created here with git worktree add).  The prompt
contains only the property record and one-line descriptions of changes already proposed for it
(so that the new one differs); nothing about how /verif checks the property."""
import json, sys, os, glob, subprocess
rnd, out = sys.argv[1], sys.argv[2]
os.makedirs(out + '/prompts', exist_ok=True)
for line in open('/verif/properties.jsonl'):
    p = json.loads(line)
    pid = p['id']
    wt = '%s/%s' % (out, pid)
    if not os.path.isdir(wt):
        subprocess.check_call(['git', '-C', '/repo', 'worktree', 'add', '--detach', wt, 'HEAD', '-q'])
    prev = []
    for d in sorted(glob.glob('/verif/seeded/%s*' % pid)):
        m = json.load(open(d + '/meta.json'))
        s = m.get('summary') or m.get('change') or m.get('description') or ''
        if isinstance(s, dict):
            s = json.dumps(s)
        prev.append('- ' + ' '.join(str(s).split())[:400])
    txt = '''You are helping to evaluate a verification harness for the Python library pylatexenc (a pure-Python
LaTeX parser / LaTeX-to-text converter / unicode-to-LaTeX encoder).  You have your own scratch git
worktree of the library at %(wt)s.  Work ONLY inside %(wt)s (and %(wt)s/seed_out for your
deliverables).  Never touch /repo or /verif and do not read anything under /verif.

The library is supposed to have the following semantic property:

  id: %(id)s
  title: %(title)s
  statement: %(statement)s
  quantifier: %(quantifier)s
  code anchors: %(anchors)s

Your task: write ONE realistic source change to the library (under %(wt)s/pylatexenc/) of the kind a
maintainer could plausibly make by mistake during a refactoring, optimisation or clean-up, such that

  1. the library still imports and the existing test suite still passes, unedited:
       cd %(wt)s && PYTHONPATH=%(wt)s /venv/bin/python -m pytest -q -p no:cacheprovider 2>&1 | tail -3
     (286 tests must pass);
  2. the property above is really violated by the changed code -- for SOME inputs only: the change
     must need something specific to manifest (a particular input shape, option combination, call
     history, ...) and must leave ordinary usage working.  A change that breaks everything is useless;
  3. it is DIFFERENT in mechanism and in the code it touches from these changes that were already
     proposed for this property:
%(prev)s
     Prefer a different function/module among the anchors (or code they call), and a different
     triggering input shape.

Deliverables, all in %(wt)s/seed_out/ (create the directory):
  - patch.diff : output of `git -C %(wt)s diff -- pylatexenc` (the change itself; do NOT commit it);
  - demo.py    : a stand-alone script using only the public API of the library (imported from
                 PYTHONPATH) that exits 1 and prints FAIL on its last line when the property is
                 violated and exits 0 printing PASS on its last line when it holds.  It must PASS on
                 the unchanged code (to test the unchanged code do NOT use `git stash` -- the stash is shared between worktrees and other people use it concurrently; instead save your diff to a file and use `git apply -R <file>` then `git apply <file>`) and FAIL with your
                 change.  The demo must test the property as stated, not an implementation detail;
  - meta.json  : {"property": "%(id)s", "summary": "<what was changed and why it looks innocent>",
                 "needs_to_manifest": "<what an input/history must contain for the violation to show>",
                 "commands_run": [...], "tests_pass_with_change": true,
                 "demo_fails_with_change": true, "demo_passes_without_change": true}

Leave the change applied in the worktree when you finish.  Keep your final message under 200 words:
what you changed, what it needs to manifest, and confirmation of the three checks.
''' % dict(wt=wt, id=pid, title=p['title'], statement=p['statement'], quantifier=p['quantifier'],
           anchors=json.dumps(p['anchors']), prev='\n'.join('       ' + x for x in prev))
    open('%s/prompts/%s.prompt' % (out, pid), 'w').write(txt)
print('ok')
