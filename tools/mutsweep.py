#!/venv/bin/python
"""usage: tools/mutsweep.py <outfile.jsonl> [--sample N] [--seed S] [--jobs J] [--files a.py,b.py]
                                            [--stage tests|checks|all]

Systematic sensitivity sweep (DESIGN 9.7).  Generates single-point source mutants of the library
(comparison / boolean / arithmetic operator swaps, integer and boolean constants, removed `not`,
statements replaced by `pass`), applies each to a scratch copy of /repo outside /repo and /verif,
runs the repository's own tests on it and -- for the mutants the tests do not notice -- the quick
tier of the checks that own the mutated file (PV_REPO=<scratch>).  One JSON line per mutant:
  {id, file, line, op, before, after, tests: 'pass'|'fail', checks: {Cxx: rc}}
A surviving mutant that no check reports is either equivalent, outside every listed property, or a
gap; those are triaged by hand (notes/mutsweep_triage.md).  Nothing here is a registered check."""
import ast, json, os, random, shutil, subprocess, sys, tempfile, argparse
from concurrent.futures import ThreadPoolExecutor

REPO = '/repo'
OWNERS = {
    'latexnodes/_tokenreader.py': ['C11', 'C01', 'C05', 'C06'],
    'latexnodes/_tokenreaderbase.py': ['C11'],
    'latexnodes/_nodescollector.py': ['C01', 'C02', 'C05', 'C06', 'C10'],
    'latexnodes/_parsingstate.py': ['C17', 'C10', 'C02'],
    'latexnodes/_parsingstatedelta.py': ['C10', 'C17', 'C02'],
    'latexnodes/_parsedargs.py': ['C16', 'C19', 'C02'],
    'latexnodes/_latexnodes.py': ['C18', 'C19', 'C01'],
    'latexnodes/nodes.py': ['C18', 'C19', 'C01'],
    'latexnodes/parsers/_delimited.py': ['C01', 'C02', 'C05', 'C06', 'C10'],
    'latexnodes/parsers/_expression.py': ['C01', 'C02', 'C05', 'C06', 'C16'],
    'latexnodes/parsers/_generalnodes.py': ['C01', 'C02', 'C05', 'C06'],
    'latexnodes/parsers/_math.py': ['C10', 'C02', 'C05'],
    'latexnodes/parsers/_optionals.py': ['C01', 'C02', 'C09'],
    'latexnodes/parsers/_stdarg.py': ['C02', 'C01', 'C18', 'C09'],
    'latexnodes/parsers/_verbatim.py': ['C01', 'C02', 'C05', 'C06'],
    'latexnodes/_callablespecbase.py': ['C02'],
    'latexwalker/_walker.py': ['C16', 'C20', 'C06', 'C05', 'C09'],
    'latexwalker/_defaultspecs.py': ['C10', 'C02', 'C07'],
    'latex2text/__init__.py': ['C03', 'C12', 'C07'],
    'latex2text/_inputlatexfile.py': ['C15'],
    'latex2text/_defaultspecs.py': ['C03', 'C08', 'C07'],
    'latexencode/_unicode_to_latex_encoder.py': ['C04', 'C13', 'C08'],
    'latexencode/_partial_latex_encoder.py': ['C04'],
    'latexencode/get_builtin_rules.py': ['C04', 'C13'],
    'latexencode/_rule.py': ['C04'],
    'macrospec/_latexcontextdb.py': ['C14', 'C09'],
    'macrospec/_specclasses.py': ['C02', 'C16', 'C09', 'C05'],
    'macrospec/_macrocallparser.py': ['C02', 'C01', 'C06', 'C10'],
    'macrospec/_argumentsparser.py': ['C02', 'C16', 'C01'],
    'macrospec/_environmentbodyparser.py': ['C02', 'C05', 'C06'],
    'macrospec/_pyltxenc2_argparsers/_base.py': ['C16'],
    'macrospec/_pyltxenc2_argparsers/_verbatimargsparser.py': ['C16', 'C01', 'C02'],
    'macrospec/_pyltxenc2_argparsers/__init__.py': ['C16'],
    '_util.py': ['C20'],
}

CMP = {ast.Lt: '<=', ast.LtE: '<', ast.Gt: '>=', ast.GtE: '>', ast.Eq: '!=', ast.NotEq: '==',
       ast.Is: 'is not', ast.IsNot: 'is', ast.In: 'not in', ast.NotIn: 'in'}
CMP_TXT = {ast.Lt: '<', ast.LtE: '<=', ast.Gt: '>', ast.GtE: '>=', ast.Eq: '==', ast.NotEq: '!=',
           ast.Is: 'is', ast.IsNot: 'is not', ast.In: 'in', ast.NotIn: 'not in'}


def offsets(src):
    offs, o = [0], 0
    for ln in src.splitlines(True):
        o += len(ln.encode('utf-8'))
        offs.append(o)
    return offs


class Gen(ast.NodeVisitor):
    def __init__(self, src):
        self.src = src
        self.b = src.encode('utf-8')
        self.offs = offsets(src)
        self.out = []
        self.skip_depth = 0

    def pos(self, line, col):
        return self.offs[line - 1] + col

    def span(self, node):
        return self.pos(node.lineno, node.col_offset), self.pos(node.end_lineno, node.end_col_offset)

    def add(self, a, b, new, op, line):
        old = self.b[a:b].decode('utf-8')
        if old != new:
            self.out.append({'a': a, 'b': b, 'new': new, 'op': op, 'line': line, 'old': old})

    def between(self, left, right, txt, new, op):
        a = self.span(left)[1]
        b = self.span(right)[0]
        mid = self.b[a:b].decode('utf-8')
        i = mid.find(txt)
        if i < 0 or '#' in mid:
            return
        # byte offsets: mid is ascii around operators
        self.add(a + len(mid[:i].encode('utf-8')), a + len(mid[:i + len(txt)].encode('utf-8')), new, op,
                 left.end_lineno)

    def generic_visit(self, node):
        if isinstance(node, ast.Call):
            f = node.func
            name = ast.unparse(f) if hasattr(ast, 'unparse') else ''
            if name.startswith('logger.') or name.startswith('warnings.') or \
                    name.startswith('_util.pylatexenc_deprecated') or name.startswith('logging.'):
                return
        if isinstance(node, ast.FunctionDef) and node.name in ('__repr__', '__str__', 'to_json_object',
                                                               'pretty', '_fmtnodelist'):
            return
        if isinstance(node, ast.Raise):
            return      # error messages / classes are not part of any property
        if isinstance(node, ast.If):
            t = ast.unparse(node.test)
            if '__name__' in t or 'logger.' in t or 'sys.version_info' in t:
                return
        super().generic_visit(node)

    def visit_Compare(self, node):
        if len(node.ops) == 1:
            op = node.ops[0]
            self.between(node.left, node.comparators[0], CMP_TXT[type(op)], CMP[type(op)],
                         'cmp:%s->%s' % (CMP_TXT[type(op)], CMP[type(op)]))
        self.generic_visit(node)

    def visit_BoolOp(self, node):
        txt, new = ('and', 'or') if isinstance(node.op, ast.And) else ('or', 'and')
        self.between(node.values[0], node.values[1], txt, new, 'bool:%s->%s' % (txt, new))
        self.generic_visit(node)

    def visit_BinOp(self, node):
        if isinstance(node.op, (ast.Add, ast.Sub)) and not isinstance(node.left, ast.Constant) \
                or isinstance(node.op, ast.Sub):
            txt, new = ('+', '-') if isinstance(node.op, ast.Add) else ('-', '+')
            if not (isinstance(node.left, ast.Constant) and isinstance(node.left.value, str)) and \
                    not (isinstance(node.right, ast.Constant) and isinstance(node.right.value, str)):
                self.between(node.left, node.right, txt, new, 'arith:%s->%s' % (txt, new))
        self.generic_visit(node)

    def visit_UnaryOp(self, node):
        if isinstance(node.op, ast.Not):
            a, b = self.span(node)
            oa, ob = self.span(node.operand)
            self.add(a, oa, '', 'not-removed', node.lineno)
        self.generic_visit(node)

    def visit_Constant(self, node):
        a, b = self.span(node)
        v = node.value
        if v is True or v is False:
            self.add(a, b, 'False' if v else 'True', 'const:bool', node.lineno)
        elif isinstance(v, int) and not isinstance(v, bool) and abs(v) < 10:
            self.add(a, b, str(v + 1), 'const:int+1', node.lineno)

    def visit_Expr(self, node):
        if isinstance(node.value, ast.Constant):
            return      # docstring
        self.stmt_delete(node)
        self.generic_visit(node)

    def visit_Assign(self, node):
        self.stmt_delete(node)
        self.generic_visit(node)

    def visit_AugAssign(self, node):
        self.stmt_delete(node)
        self.generic_visit(node)

    def stmt_delete(self, node):
        if isinstance(node, ast.Expr) and isinstance(node.value, ast.Call):
            name = ast.unparse(node.value.func)
            if name.startswith(('logger.', 'warnings.', 'logging.', 'super(')):
                return
        if node.col_offset == 0:
            return      # module-level definitions
        a, b = self.span(node)
        self.add(a, b, 'pass', 'stmt-deleted', node.lineno)


def mutants_of(rel):
    path = os.path.join(REPO, 'pylatexenc', rel)
    src = open(path, encoding='utf-8').read()
    g = Gen(src)
    g.visit(ast.parse(src))
    out = []
    for m in g.out:
        nb = g.b[:m['a']] + m['new'].encode('utf-8') + g.b[m['b']:]
        try:
            ast.parse(nb.decode('utf-8'))
        except SyntaxError:
            continue
        line_txt = src.splitlines()[m['line'] - 1].strip()
        out.append({'file': rel, 'line': m['line'], 'op': m['op'], 'before': m['old'][:80],
                    'after': m['new'], 'context': line_txt[:160], 'a': m['a'], 'b': m['b']})
    return out


def make_scratch(m, root):
    d = tempfile.mkdtemp(prefix='m', dir=root)
    subprocess.check_call(['rsync', '-a', '--exclude', '.git', '--exclude', 'doc', '--exclude',
                           'js-transcrypt', '--exclude', '__pycache__', '--exclude', '.pytest_cache',
                           REPO + '/', d + '/'])
    p = os.path.join(d, 'pylatexenc', m['file'])
    b = open(p, 'rb').read()
    if not b[m['a']:m['b']].decode('utf-8', 'replace').startswith(m['before'][:80]):
        shutil.rmtree(d, ignore_errors=True)
        raise ValueError('source changed since the mutant was generated: %s:%s' % (m['file'], m['line']))
    open(p, 'wb').write(b[:m['a']] + m['after'].encode('utf-8') + b[m['b']:])
    return d


def run_tests(d):
    env = dict(os.environ, PYTHONPATH=d, PYTHONDONTWRITEBYTECODE='1')
    try:
        r = subprocess.run(['/venv/bin/python', '-m', 'pytest', '-q', '-x', '-p', 'no:cacheprovider'],
                           cwd=d, env=env, capture_output=True, text=True, timeout=1800)
    except subprocess.TimeoutExpired:
        return 'timeout'
    return 'pass' if r.returncode == 0 else 'fail'


def run_check(d, c):
    env = dict(os.environ, PV_REPO=d)
    r = subprocess.run(['/verif/check', c, '--tier', 'quick', '--no-evidence'], env=env,
                       capture_output=True, text=True)
    v = [l for l in (r.stdout + r.stderr).splitlines() if l.startswith('VIOLATION')]
    return r.returncode, (v[0][:200] if v else '')


def recheck(a):
    """survivors of an earlier sweep against the current checks"""
    recs = [json.loads(l) for l in open(a.recheck)]
    surv = [r for r in recs if r['tests'] == 'pass' and not r['caught_by']]
    if a.files:
        surv = [r for r in surv if r['file'] in a.files.split(',')]
    root = tempfile.mkdtemp(prefix='mutsweep.', dir='/tmp')
    try:
        with open(a.out, 'a') as out:
            for r in surv:
                try:
                    d = make_scratch(r, root)
                except ValueError:
                    continue
                rec = dict(r, checks={}, caught_by=None, recheck=True)
                for c in (a.checks.split(',') if a.checks else OWNERS.get(r['file'], [])):
                    rc, v = run_check(d, c)
                    rec['checks'][c] = rc
                    if rc == 1:
                        rec['caught_by'] = c
                        rec['violation'] = v
                        break
                shutil.rmtree(d, ignore_errors=True)
                out.write(json.dumps(rec) + '\n')
                out.flush()
    finally:
        shutil.rmtree(root, ignore_errors=True)


def main():
    ap = argparse.ArgumentParser()
    ap.add_argument('out')
    ap.add_argument('--sample', type=int, default=100)
    ap.add_argument('--seed', type=int, default=1)
    ap.add_argument('--jobs', type=int, default=8)
    ap.add_argument('--files', default='')
    ap.add_argument('--list', action='store_true')
    ap.add_argument('--recheck', default='', help='jsonl of an earlier sweep: re-run its survivors')
    ap.add_argument('--checks', default='', help='with --recheck: comma list of checks (default: owners)')
    a = ap.parse_args()
    if a.recheck:
        recheck(a)
        return
    files = a.files.split(',') if a.files else sorted(OWNERS)
    allm = []
    for rel in files:
        if os.path.exists(os.path.join(REPO, 'pylatexenc', rel)):
            ms = mutants_of(rel)
            allm += ms
    rng = random.Random(a.seed)
    rng.shuffle(allm)
    sample = allm[:a.sample]
    if a.list:
        from collections import Counter
        print(len(allm), 'mutants;', Counter(m['file'] for m in allm).most_common())
        return
    done = set()
    if os.path.exists(a.out):
        for l in open(a.out):
            r = json.loads(l)
            done.add((r['file'], r['a'], r['after']))
    root = tempfile.mkdtemp(prefix='mutsweep.', dir='/tmp')
    try:
        import threading
        sem = threading.Semaphore(3)
        lock = threading.Lock()
        out = open(a.out, 'a')

        def stage1(m):
            d = make_scratch(m, root)
            t = run_tests(d)
            rec = dict(m, tests=t, checks={}, caught_by=None)
            if t == 'pass':
                with sem:
                    for c in OWNERS[m['file']]:
                        rc, v = run_check(d, c)
                        rec['checks'][c] = rc
                        if rc == 1:
                            rec['caught_by'] = c
                            rec['violation'] = v
                            break
            shutil.rmtree(d, ignore_errors=True)
            with lock:
                out.write(json.dumps(rec) + '\n')
                out.flush()
        todo = [m for m in sample if (m['file'], m['a'], m['after']) not in done]
        with ThreadPoolExecutor(a.jobs) as ex:
            list(ex.map(stage1, todo))
        out.close()
    finally:
        shutil.rmtree(root, ignore_errors=True)


if __name__ == '__main__':
    main()
